#!/usr/bin/env python3
"""Regenerate /verif/MANIFEST.json from contracts/props.json (single source for levels, notes, not_applicable)."""
import json, os, subprocess
V = os.path.dirname(os.path.dirname(os.path.abspath(__file__)))
props = json.load(open(os.path.join(V, "contracts", "props.json")))
ids = [json.loads(l)["id"] for l in open(os.path.join(V, "properties.jsonl"))]
hook_commits = []
try:
    out = subprocess.run(["git", "-C", "/repo", "log", "--format=%H %s"], capture_output=True, text=True).stdout
    hook_commits = [l.split()[0] for l in out.splitlines() if l.split(" ", 1)[1].startswith("verif hook")]
except Exception:
    pass
checks, na = [], []
for pid in ids:
    m = props.get(pid)
    if not m or m.get("not_applicable"):
        na.append({"property_id": pid, "reason": (m or {}).get("not_applicable", "no check built yet")})
        continue
    checks.append({
        "property_id": pid,
        "quick_cmd": "bin/check %s --tier quick" % pid,
        "thorough_cmd": "bin/check %s --tier thorough" % pid,
        "evidence_file": "/verif/evidence/%s.json" % pid,
        "replay_cmd_template": "bin/check %s --replay {path}" % pid,
        "engine": m.get("engine", "kani+verus"),
        "level_claimed": {"category": m.get("level", "proof"), "text": m["level_text"], "design_ref": m.get("design_ref", "DESIGN.md section 5")},
        "level_note": m["level_note"],
        "technique": m["technique"],
    })
man = {
    "version": 1,
    "setup_cmd": "bin/setup",
    "hooks": {
        "guard": "cargo feature hbs_lms_verif",
        "enable": "checks build a scratch copy of /repo with `--features hbs_lms_verif` (Kani) ; contract attributes and cfg(kani) modules are injected into the scratch copy only",
        "baseline_off_cmd": "cd /repo && cargo test --workspace --no-fail-fast --offline",
        "source_commits": hook_commits,
        "add_only": False,
    },
    "engines": [
        {"name": "kani-contracts", "path": "lib/kani_engine.py", "serves_properties": [c["property_id"] for c in checks],
         "kind_free_text": "Kani 0.68 function contracts / contract-style proof harnesses on the real crate (insert-only injection into a scratch copy)"},
        {"name": "verus-extract", "path": "lib/verus_engine.py", "serves_properties": [c["property_id"] for c in checks if "verus" in c["engine"]],
         "kind_free_text": "Verus on function bodies cut mechanically out of /repo on every run, contracts spliced in"},
    ],
    "checks": checks,
    "not_applicable": na,
    "notes": "See DESIGN.md. exit 2 = undecided (never an alarm). known findings: known_findings.json",
}
json.dump(man, open(os.path.join(V, "MANIFEST.json"), "w"), indent=1)
print("checks:", [c["property_id"] for c in checks], "n/a:", [n["property_id"] for n in na])
