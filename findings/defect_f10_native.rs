use hbs_lms::*;
use hbs_lms::signature::{SignerMut, Verifier};
type H = Sha256_256;
/// F10: tinyvec's ArrayVec keeps its length in a u16. An HSS signature longer than 65535 bytes (8 levels of W1 at n = 32:
/// 8 * 8684 + 7 * 56 + 4 = 69868 bytes) makes HssSignature::to_binary_representation panic - AFTER the update callback has
/// accepted the successor key.
#[test] fn f10_signature_longer_than_u16() {
    let seed = Seed::<H>::from([7u8; 32]);
    let p = [HssParameter::<H>::new(LmotsAlgorithm::LmotsW1, LmsAlgorithm::LmsH5); 8];
    let r = keygen::<H>(&p, &seed, None);
    let (sk, vk) = match r { Ok(x) => x, Err(_) => return }; // refusing such a list at key generation is fine
    let key = sk.as_slice().to_vec();
    let mut calls = 0;
    let res = std::panic::catch_unwind(std::panic::AssertUnwindSafe(|| sign::<H>(b"m", &key, &mut |_| { calls += 1; Ok(()) }, None)));
    match res {
        Err(_) => panic!("F10: signing panicked (callback invocations before the panic: {})", calls),
        Ok(Ok(sig)) => assert!(verify::<H>(b"m", sig.as_ref(), vk.as_slice()).is_ok()),
        Ok(Err(_)) => assert_eq!(calls, 0, "refused, but the callback had been invoked"),
    }
}
