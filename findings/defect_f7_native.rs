#![cfg(feature = "fast_verify")]
use hbs_lms::*;
#[test] fn f7_fast_verify_n24() {
    type H = Sha256_192;
    let mut seed = Seed::<H>::default(); seed.as_mut_slice().copy_from_slice(&[7u8; 24]);
    let (sk, vk) = keygen::<H>(&[HssParameter::new(LmotsAlgorithm::LmotsW4, LmsAlgorithm::LmsH5)], &seed, None).unwrap();
    let mut msg = [0u8; 64]; msg[0] = 1;
    let k = sk.as_slice().to_vec();
    let sig = sign_mut::<H>(&mut msg, &k, &mut |_| Ok(()), None).unwrap();
    assert!(verify::<H>(&msg, sig.as_ref(), vk.as_slice()).is_ok());
}
