use hbs_lms::*;
use hbs_lms::signature::{SignerMut, Verifier};
type H = Sha256_256;
#[test] fn f6_reduced_build() {
    let seed = Seed::<H>::from([7u8; 32]);
    let p = [HssParameter::<H>::new(LmotsAlgorithm::LmotsW8, LmsAlgorithm::LmsH5); 2];
    let (mut sk, vk) = keygen::<H>(&p, &seed, None).unwrap();
    assert_eq!(sk.as_slice().len(), 48);
    assert_eq!(&sk.as_slice()[8..16], &[0x54, 0x54, 0xff, 0xff, 0xff, 0xff, 0xff, 0xff]);
    assert_eq!(sk.get_lifetime().unwrap(), 1024);
    let sig = sk.try_sign(b"m").unwrap();
    assert!(vk.verify(b"m", &sig).is_ok());
    // beyond the limits: error, not panic
    let p3 = [HssParameter::<H>::new(LmotsAlgorithm::LmotsW8, LmsAlgorithm::LmsH5); 3];
    assert!(keygen::<H>(&p3, &seed, None).is_err());
    let ph = [HssParameter::<H>::new(LmotsAlgorithm::LmotsW8, LmsAlgorithm::LmsH10)];
    assert!(keygen::<H>(&ph, &seed, None).is_err());
    let pw = [HssParameter::<H>::new(LmotsAlgorithm::LmotsW4, LmsAlgorithm::LmsH5)];
    assert!(keygen::<H>(&pw, &seed, None).is_err());
}
