use hbs_lms::*;
use hbs_lms::signature::{SignerMut, Verifier};
use std::panic::catch_unwind;

type H = Sha256_256;
fn kg() -> (SigningKey<H>, VerifyingKey<H>) {
    let seed = Seed::<H>::from([7u8; 32]);
    keygen::<H>(&[HssParameter::new(LmotsAlgorithm::LmotsW8, LmsAlgorithm::LmsH5)], &seed, None).unwrap()
}
#[test] fn f1_short_sig_panics() {
    let r = catch_unwind(|| { let _ = verify::<H>(b"m", &[], &[0u8; 60]); });
    assert!(r.is_ok(), "F1: empty signature panics");
}
#[test] fn f1_unknown_type_panics() {
    let (mut sk, vk) = kg();
    let sig = sk.try_sign(b"m").unwrap();
    let mut s = sig.as_ref().to_vec();
    s[4+4+3] = 0x77; // lmots type
    let r = catch_unwind(|| { let _ = verify::<H>(b"m", &s, vk.as_slice()); });
    assert!(r.is_ok(), "F1: unknown lmots type panics");
}
#[test] fn f1_level_count_panics() {
    let (mut sk, vk) = kg();
    let sig = sk.try_sign(b"m").unwrap();
    let mut s = sig.as_ref().to_vec();
    s[0] = 0xff;
    let r = catch_unwind(|| { let _ = verify::<H>(b"m", &s, vk.as_slice()); });
    assert!(r.is_ok(), "F1: absurd level panics");
}
#[test] fn f2_trailing_accepted() {
    let (mut sk, vk) = kg();
    let sig = sk.try_sign(b"m").unwrap();
    let mut s = sig.as_ref().to_vec();
    assert!(verify::<H>(b"m", &s, vk.as_slice()).is_ok());
    s.push(0);
    assert!(verify::<H>(b"m", &s, vk.as_slice()).is_err(), "F2: trailing byte in signature accepted");
}
#[test] fn f2_trailing_pk_accepted() {
    let (mut sk, vk) = kg();
    let sig = sk.try_sign(b"m").unwrap();
    let mut p = vk.as_slice().to_vec();
    p.push(0);
    assert!(verify::<H>(b"m", sig.as_ref(), &p).is_err(), "F2: trailing byte in public key accepted");
}
#[test] fn f3_bad_param_byte_panics() {
    let (sk, _vk) = kg();
    let mut k = sk.as_slice().to_vec();
    k[8] = 0x00;
    let r = catch_unwind(move || { let _ = sign::<H>(b"m", &k, &mut |_| Ok(()), None); });
    assert!(r.is_ok(), "F3: invalid parameter byte panics");
}
#[test] fn f3_nine_levels_panics() {
    let r = catch_unwind(|| {
        let seed = Seed::<H>::from([7u8; 32]);
        let p = [HssParameter::<H>::new(LmotsAlgorithm::LmotsW8, LmsAlgorithm::LmsH5); 9];
        let _ = keygen::<H>(&p, &seed, None).is_ok();
    });
    assert!(r.is_ok(), "F3: nine levels panics");
}
#[test] fn f3_empty_aux_panics() {
    let r = catch_unwind(|| {
        let seed = Seed::<H>::from([7u8; 32]);
        let mut aux: [u8; 0] = [];
        let a: &mut &mut [u8] = &mut &mut aux[..];
        let _ = keygen::<H>(&[HssParameter::new(LmotsAlgorithm::LmotsW8, LmsAlgorithm::LmsH5)], &seed, Some(a)).is_ok();
    });
    assert!(r.is_ok(), "F3: empty aux panics");
}
#[test] fn f3_short_used_aux_panics() {
    let (sk, _vk) = kg();
    let k = sk.as_slice().to_vec();
    let r = catch_unwind(move || {
        let mut aux = [0xffu8; 3];
        let a: &mut &mut [u8] = &mut &mut aux[..];
        let _ = sign::<H>(b"m", &k, &mut |_| Ok(()), Some(a));
    });
    assert!(r.is_ok(), "F3: 3-byte in-use aux panics");
}
#[test] fn f3_corrupt_level_aux_panics() {
    let (sk, _vk) = kg();
    let k = sk.as_slice().to_vec();
    let r = catch_unwind(move || {
        let mut aux = [0xffu8; 100];
        let a: &mut &mut [u8] = &mut &mut aux[..];
        let _ = sign::<H>(b"m", &k, &mut |_| Ok(()), Some(a));
    });
    assert!(r.is_ok(), "F3: corrupted level word aux panics");
}
