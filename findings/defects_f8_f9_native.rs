use hbs_lms::*;
use hbs_lms::signature::{SignerMut, Verifier};
type H = Sha256_256;
#[test] fn f8_eight_levels_sign() {
    let seed = Seed::<H>::from([7u8; 32]);
    let p = [HssParameter::<H>::new(LmotsAlgorithm::LmotsW8, LmsAlgorithm::LmsH5); 8];
    let (mut sk, vk) = keygen::<H>(&p, &seed, None).unwrap();
    let sig = sk.try_sign(b"m").unwrap();
    assert!(vk.verify(b"m", &sig).is_ok());
}
#[test] fn f9_garbage_fresh_aux() {
    let seed = Seed::<H>::from([7u8; 32]);
    let p = [HssParameter::<H>::new(LmotsAlgorithm::LmotsW8, LmsAlgorithm::LmsH5)];
    let (sk0, vk0) = keygen::<H>(&p, &seed, None).unwrap();
    let mut aux = [0x5au8; 2000]; aux[0] = 0;
    let a: &mut &mut [u8] = &mut &mut aux[..];
    let (sk1, vk1) = keygen::<H>(&p, &seed, Some(a)).unwrap();
    assert_eq!(sk0, sk1);
    assert_eq!(vk0, vk1, "F9: garbage in a fresh (first byte 0) aux buffer changes the public key");
}
#[test] fn f9_garbage_fresh_aux_sign() {
    let seed = Seed::<H>::from([7u8; 32]);
    let p = [HssParameter::<H>::new(LmotsAlgorithm::LmotsW8, LmsAlgorithm::LmsH5)];
    let (sk0, vk0) = keygen::<H>(&p, &seed, None).unwrap();
    let mut aux = [0x5au8; 2000]; aux[0] = 0;
    let a: &mut &mut [u8] = &mut &mut aux[..];
    let k = sk0.as_slice().to_vec();
    let sig = sign::<H>(b"m", &k, &mut |_| Ok(()), Some(a)).unwrap();
    assert!(verify::<H>(b"m", sig.as_ref(), vk0.as_slice()).is_ok(), "F9: signature made with garbage fresh aux does not verify");
}
