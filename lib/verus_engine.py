"""Verus engine (filled in below): extract real functions from /repo, splice contracts, run verus."""


class Undecided(Exception):
    pass


def list_units():
    return []


def run_unit(u, scratch):
    raise Undecided("not implemented")
