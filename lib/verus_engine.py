"""Verus engine: cut real items out of /repo's working tree on every run, splice contracts, run `verus file.rs`.

Unit description: contracts/verus/<unit>.vspec (see parse_vspec). The generated file is
    use vstd..; verus! { <@prelude text> <extracted items with spliced contracts> <@epilogue text> } fn main(){}
What extraction drops / rewrites is the closed list REWRITES below (DESIGN 3.2); counts go into the evidence.
`proof fn canary_*` items must FAIL (vacuity guards); every other function must verify.
"""
import json
import os
import re
import subprocess
import time

from common import VERIF, REPO, log

VDIR = os.path.join(VERIF, "contracts", "verus")


class Undecided(Exception):
    pass


# ---------------------------------------------------------------------------------------------- rewrites (closed list)
REWRITES = [
    # id, regex, replacement, what is lost
    ("R1", re.compile(r"u32::from_be_bytes\(\s*((?:[^()]|\((?:[^()]|\([^()]*\))*\))*?)\s*\.try_into\(\)\s*\.unwrap\(\),?\s*\)", re.S),
     r"be32_from(\1)", "u32::from_be_bytes(E.try_into().unwrap()) -> be32_from(E) requiring E.len()==4 (the unwrap panics iff len!=4: kept as obligation)"),
    ("R1b", re.compile(r"u64::from_be_bytes\(\s*((?:[^()]|\((?:[^()]|\([^()]*\))*\))*?)\s*\.try_into\(\)\s*\.unwrap\(\),?\s*\)", re.S),
     r"be64_from(\1)", "u64::from_be_bytes(E.try_into().unwrap()) -> be64_from(E) requiring E.len()==8"),
    ("R1c", re.compile(r"u32::from_be_bytes\(\s*((?:[^()]|\((?:[^()]|\([^()]*\))*\))*?)\s*\)", re.S),
     r"be32_from_arr(\1)", "u32::from_be_bytes(A) on a [u8; 4] value -> be32_from_arr(A) (same big-endian value as be32_from)"),
    ("R2", re.compile(r"((?:[A-Za-z_][A-Za-z0-9_]*|\((?:[^()]|\([^()]*\))*\))(?:\.[A-Za-z_][A-Za-z0-9_]*(?:\(\))?)*)\.to_be_bytes\(\)"),
     r"to_be_bytes_spec(\1)", "E.to_be_bytes() -> to_be_bytes_spec(E) (u32/u16 via trait)"),
    ("R0-attr", re.compile(r"^[ \t]*#\[(?:default|inline|zeroize\(skip\)|allow\([^\]]*\)|cfg\(any\(test, feature = \"hbs_lms_verif\"\)\)|cfg\(test\))\][ \t]*\n(?:[ \t]*[^\n]*LmsH2[^\n]*\n)?", re.M), "",
     "inert attributes (#[default], #[inline], #[allow], #[zeroize(skip)] of the dropped derive) dropped; cfg(test)/hook-only LmsH2 lines dropped (default build)"),
    ("R7", re.compile(r"panic!\((?:[^()]|\([^()]*\))*\)"), "vpanic()", "panic!(..) -> vpanic() whose precondition is false: reaching it is a failed obligation"),
    ("R7b", re.compile(r"assert_eq!\(\s*((?:[^(),]|\((?:[^()]|\([^()]*\))*\))+?),\s*((?:[^(),]|\((?:[^()]|\([^()]*\))*\))+?)\s*,?\s*\);", re.S),
     r"if !(\1 == \2) { vpanic(); }", "assert_eq!(A, B); -> if !(A == B) { vpanic(); } : the panic of a failed assert_eq! is an obligation"),
    ("R13-param-ne", re.compile(r"([A-Za-z_][\w\.]*\.(lmots|lms)_parameter)\s*!=\s*([A-Za-z_][\w\.]*\.\2_parameter)"), r"!\2_parameter_eq(&\1, &\3)",
     "`a != b` on LmotsParameter/LmsParameter (derive(PartialEq)) -> !{lmots,lms}_parameter_eq(&a,&b): field-wise equality assumed"),
    ("R13-param-eq", re.compile(r"([A-Za-z_][\w\.]*\.(lmots|lms)_parameter)\s*==\s*([A-Za-z_][\w\.]*\.\2_parameter)"), r"\2_parameter_eq(&\1, &\3)",
     "`a == b` on LmotsParameter/LmsParameter -> {lmots,lms}_parameter_eq(&a,&b)"),
    ("R11-slice-eq", re.compile(r"([A-Za-z_][\w\.]*\.as_slice\(\))\s*==\s*([A-Za-z_][\w\.]*)"), r"slice_eq(\1, \2)",
     "`x.as_slice() == y` on byte slices -> slice_eq(x.as_slice(), y) (element-wise equality of core's slice PartialEq)"),
    ("R4-chain-call", re.compile(r"\b([A-Za-z_][A-Za-z0-9_]*)\.do_hash_chain\("), r"hc_do_hash_chain(&mut \1, ",
     "hasher.do_hash_chain(..) -> hc_do_hash_chain(&mut hasher, ..): provided trait method under its assumed contract (K-chain)"),
    ("R4-prepare-call", re.compile(r"\bH::prepare_hash_chain_data\("), r"hc_prepare_hash_chain_data::<H>(",
     "H::prepare_hash_chain_data(..) -> hc_prepare_hash_chain_data::<H>(..)"),
    ("R9-qualified", re.compile(r"\b(?:crate::)?(?:hss::)?(lm_ots|lms|hss)::verify::(verify|generate_public_key_candidate)\b"), r"\1_\2",
     "same-named functions of different modules get the module as prefix: lms::verify::verify -> lms_verify (definitions renamed with @opt rename)"),
    ("R9-flatten", re.compile(r"\b(?:crate::)?(?:(?:lm_ots|lms|hss|util|constants|hasher|signing|verify|definitions|parameters|parameter|keygen|helper|coef|aux|reference_impl_private_key|seed_derive|super)::)+(?=[A-Za-z_])"), "",
     "crate-internal module paths flattened (single-file Verus): lm_ots::signing::X -> X"),
    ("R16-clone", re.compile(r"((?:\(\*[A-Za-z_][\w\.]*\.idx\((?:[^()]|\([^()]*\))*\)\)|[A-Za-z_][\w]*)(?:\.[A-Za-z_]\w*)*)\.clone\(\)"),
     r"clone_of(&\1)", "E.clone() on a value of a derive(Clone) plain-data struct -> clone_of(&E): derived Clone = field-wise copy (assumed: r == *E)"),
    ("R17-map-err", re.compile(r"\.map_err\(\|_\|\s*Error::new\(\)\)"), r".map_err(|_e: ()| -> (o: Error) { Error::new() })",
     ".map_err(|_| Error::new()) on a Result<_, ()> -> closure with an explicit parameter type and named result (Verus closure syntax)"),
    ("R18-ok-or-else", re.compile(r"\.ok_or_else\(Error::new\)"), r".ok_or(Error::new())",
     ".ok_or_else(Error::new) -> .ok_or(Error::new()) (Error::new() is a constant unit-like value)"),
    ("R5", re.compile(r"H::OUTPUT_SIZE\.into\(\)"), r"(H::OUTPUT_SIZE as usize)", "H::OUTPUT_SIZE.into() -> H::OUTPUT_SIZE as usize (lossless widening)"),
]


class Unit:
    def __init__(self, name):
        self.name = name
        self.props = []
        self.tier = "quick"
        self.parts = []       # ordered (key, text) prelude chunks; keys make @include/@import idempotent
        self.epilogue = ""
        self.items = []       # dicts
        self.uses = []
        self.path = None
        self.imports = []
        self.expect_fail = []  # names of functions expected to fail in addition to canary_*
        self.rlimit = None

    def add_part(self, key, text):
        for k, _ in self.parts:
            if k == key:
                return
        self.parts.append((key, text))

    @property
    def prelude(self):
        return "\n".join(t for _, t in self.parts)


def _assume_imported_lemmas(text):
    """`proof fn` items of an imported unit's own prelude become external_body (statement kept, proof not repeated).
    Canaries and #[via_fn] termination proofs are left alone."""
    clean = _strip_tokens(text)
    out, last = [], 0
    for m in re.finditer(r"^[ \t]*(?:pub[ \t]+)?(?:broadcast[ \t]+)?proof[ \t]+fn[ \t]+([A-Za-z0-9_]+)", clean, re.M):
        name = m.group(1)
        if name.startswith("canary_"):
            continue
        pre = clean[max(0, m.start() - 40):m.start()]
        if "via_fn" in pre:
            continue
        out.append(text[last:m.start()])
        out.append("#[verifier::external_body] // proved in the unit this prelude was imported from\n")
        last = m.start()
    out.append(text[last:])
    return "".join(out)


def parse_vspec(path):
    u = Unit(os.path.basename(path)[:-6])
    u.path = path
    cur = None          # current item
    mode = None         # prelude | epilogue | sig | before | loop | body_replace
    buf = []
    target = None

    def flush():
        nonlocal buf, mode, target
        text = "\n".join(buf)
        if mode == "prelude":
            u.add_part("own:%s:%d" % (u.name, len(u.parts)), text + "\n")
        elif mode == "prelude_local":
            # not exported by @import: specification glue that only this unit's own functions need
            u.add_part("local:%s:%d" % (u.name, len(u.parts)), text + "\n")
        elif mode == "epilogue":
            u.epilogue += text + "\n"
        elif mode == "sig" and cur is not None:
            cur["sig"] = text
        elif mode == "before" and cur is not None:
            cur["before"].append((target, text))
        elif mode == "after" and cur is not None:
            cur["after"].append((target, text))
        elif mode == "loop" and cur is not None:
            cur["loops"].append((int(target), text))
        elif mode == "loopstart" and cur is not None:
            cur.setdefault("loopstarts", []).append((int(target), text))
        elif mode == "loopend" and cur is not None:
            cur.setdefault("loopends", []).append((int(target), text))
        elif mode == "afterloop" and cur is not None:
            cur.setdefault("afterloops", []).append((int(target), text))
        buf = []
        mode = None
        target = None

    with open(path) as f:
        for raw in f:
            line = raw.rstrip("\n")
            if line.startswith("@"):
                parts = line.split(None, 1)
                key = parts[0]
                arg = parts[1] if len(parts) > 1 else ""
                if key == "@@":
                    buf.append(line[2:])
                    continue
                flush()
                if key == "@props":
                    u.props = [p.strip() for p in arg.split(",")]
                elif key == "@tier":
                    u.tier = arg.strip()
                elif key == "@rlimit":
                    u.rlimit = arg.strip()
                elif key == "@use":
                    u.uses.append(arg.strip())
                elif key == "@expect_fail":
                    u.expect_fail.append(arg.strip())
                elif key == "@include":
                    with open(os.path.join(VDIR, arg.strip())) as inc:
                        u.add_part("inc:" + arg.strip(), inc.read() + "\n")
                elif key == "@import":
                    # modular use of another unit: its prelude and items are included, its fns as external_body
                    # (contract assumed here, proved in that unit, which runs for the same properties)
                    other = parse_vspec(os.path.join(VDIR, arg.strip() + ".vspec"))
                    for x in other.uses:
                        if x not in u.uses:
                            u.uses.append(x)
                    for k, t in other.parts:
                        if k.startswith("local:"):
                            continue
                        # lemmas of an imported unit are proved there; here only their statements are used
                        u.add_part(k, _assume_imported_lemmas(t) if k.startswith("own:") else t)
                    for it in other.items:
                        if it["opts"].get("local"):
                            continue
                        if any(j["file"] == it["file"] and j["name"] == it["name"] and j["impl"] == it["impl"] for j in u.items):
                            continue
                        it = dict(it)
                        it["imported_from"] = other.name
                        it["before"], it["after"], it["loops"] = [], [], []
                        it["loopstarts"], it["loopends"], it["afterloops"] = [], [], []
                        u.items.append(it)
                    u.imports.append(other.name)
                elif key == "@genconst":
                    u.add_part("gen:" + arg.strip(), gen_const(arg.strip()) + "\n")
                elif key == "@prelude":
                    mode = "prelude_local" if arg.strip() == "local" else "prelude"
                elif key == "@epilogue":
                    mode = "epilogue"
                elif key == "@item":
                    # @item <file> <kind> <name> [in <impl header>] [as <tag>]
                    mi = re.match(r"(\S+)\s+impl\s+(.*)$", arg)
                    if mi:
                        cur = {"file": mi.group(1), "kind": "impl", "name": mi.group(2).strip(), "impl": None,
                               "sig": "", "before": [], "after": [], "loops": [], "opts": {}}
                        u.items.append(cur)
                        continue
                    m = re.match(r"(\S+)\s+(fn|struct|const|enum|type|implconst)\s+(\S+)(?:\s+in\s+(.*))?$", arg)
                    if not m:
                        raise Undecided("bad @item line in %s: %s" % (path, line))
                    cur = {"file": m.group(1), "kind": m.group(2), "name": m.group(3), "impl": (m.group(4) or "").strip() or None,
                           "sig": "", "before": [], "after": [], "loops": [], "opts": {}}
                    dup = [j for j in u.items if j["file"] == cur["file"] and j["name"] == cur["name"] and j["impl"] == cur["impl"]
                           and j.get("imported_from")]
                    if dup:
                        u.items[u.items.index(dup[0])] = cur   # own contract replaces the imported (assumed) one
                    else:
                        u.items.append(cur)
                elif key == "@opt" and cur is not None:
                    k, _, v = arg.partition("=")
                    cur["opts"][k.strip()] = v.strip()
                elif key == "@sig":
                    mode = "sig"
                elif key == "@start":
                    mode = "before"
                    target = "@@START"
                elif key == "@before":
                    mode = "before"
                    target = arg
                elif key == "@after":
                    mode = "after"
                    target = arg
                elif key == "@loop":
                    mode = "loop"
                    target = arg.strip()
                elif key == "@loopstart":
                    mode = "loopstart"
                    target = arg.strip()
                elif key == "@loopend":
                    mode = "loopend"
                    target = arg.strip()
                elif key == "@afterloop":
                    mode = "afterloop"
                    target = arg.strip()
                elif key == "@end":
                    cur = None
                else:
                    raise Undecided("unknown directive %s in %s" % (key, path))
            else:
                if mode:
                    buf.append(line)
    flush()
    return u


_GEN_DEFAULTS = {"MAX_ALLOWED_HSS_LEVELS": ("HBS_LMS_MAX_ALLOWED_HSS_LEVELS", "8", None),
                 # build.rs: MIN_WINTERNITZ_PARAMETER = min of the list, MAX_TREE_HEIGHT = max of the list
                 "MIN_WINTERNITZ_PARAMETER": ("HBS_LMS_WINTERNITZ_PARAMETERS", "1, 1, 1, 1, 1, 1, 1, 1", min),
                 "MAX_TREE_HEIGHT": ("HBS_LMS_TREE_HEIGHTS", "25, 25, 25, 25, 25, 25, 25, 25", max),
                 "TREE_HEIGHTS": ("HBS_LMS_TREE_HEIGHTS", "25, 25, 25, 25, 25, 25, 25, 25", "array"),
                 "WINTERNITZ_PARAMETERS": ("HBS_LMS_WINTERNITZ_PARAMETERS", "1, 1, 1, 1, 1, 1, 1, 1", "array")}


def gen_const(name):
    """Constants that build.rs generates from the environment: value of the default configuration (.cargo/config.toml)."""
    env, dflt, red = _GEN_DEFAULTS[name]
    val = dflt
    try:
        with open(os.path.join(REPO, ".cargo", "config.toml")) as f:
            m = re.search(r'^%s\s*=\s*"([^"]*)"' % env, f.read(), re.M)
            if m:
                val = m.group(1).strip()
    except OSError:
        pass
    if red == "array":
        xs = [x.strip() for x in val.split(",")]
        return "pub const %s: [usize; %d] = [%s]; // generated constant (build.rs), default configuration" % (name, len(xs), ", ".join(xs))
    if red is not None:
        val = str(red(int(x) for x in val.split(",")))
    return "pub const %s: usize = %s; // generated constant (build.rs), default configuration" % (name, val)


def list_units():
    out = []
    if not os.path.isdir(VDIR):
        return out
    for fn in sorted(os.listdir(VDIR)):
        if fn.endswith(".vspec"):
            out.append(parse_vspec(os.path.join(VDIR, fn)))
    return out


# ---------------------------------------------------------------------------------------------- rust text cutting
def _strip_tokens(src):
    """Return a same-length string where comments, strings and char literals are blanked (brace matching aid)."""
    out = list(src)
    i, n = 0, len(src)
    while i < n:
        c = src[i]
        if src.startswith("//", i):
            j = src.find("\n", i)
            j = n if j < 0 else j
            for k in range(i, j):
                out[k] = " "
            i = j
        elif src.startswith("/*", i):
            depth, j = 1, i + 2
            while j < n and depth:
                if src.startswith("/*", j):
                    depth += 1
                    j += 2
                elif src.startswith("*/", j):
                    depth -= 1
                    j += 2
                else:
                    j += 1
            for k in range(i, j):
                if out[k] != "\n":
                    out[k] = " "
            i = j
        elif c == '"':
            j = i + 1
            while j < n and src[j] != '"':
                j += 2 if src[j] == "\\" else 1
            for k in range(i + 1, min(j, n)):
                if out[k] != "\n":
                    out[k] = " "
            i = j + 1
        elif c == "'":
            # char literal or lifetime
            m = re.match(r"'(\\.|[^\\'])'", src[i:])
            if m:
                for k in range(i + 1, i + len(m.group(0)) - 1):
                    out[k] = " "
                i += len(m.group(0))
            else:
                i += 1
        else:
            i += 1
    return "".join(out)


def _match_brace(clean, open_idx):
    depth = 0
    for j in range(open_idx, len(clean)):
        if clean[j] == "{":
            depth += 1
        elif clean[j] == "}":
            depth -= 1
            if depth == 0:
                return j
    raise Undecided("unbalanced braces")


def _find_impl_range(src, clean, header):
    want = re.sub(r"\s+", " ", header.strip())
    for m in re.finditer(r"^[ \t]*(?:impl|(?:pub(?:\([a-z]+\))?\s+)?trait)\b[^{;]*\{", clean, re.M):
        got = re.sub(r"\s+", " ", src[m.start():m.end() - 1].strip())
        if got == want:
            return m.end() - 1, _match_brace(clean, m.end() - 1)
    raise Undecided("lost anchor: impl header %r not found" % header)


def cut_item(file_rel, kind, name, impl=None, repo=None):
    """Returns dict(sig, body, start_line, text) for fn; text for others."""
    path = os.path.join(repo or REPO, file_rel)
    if not os.path.exists(path):
        raise Undecided("lost anchor: %s does not exist" % file_rel)
    with open(path) as f:
        src = f.read()
    clean = _strip_tokens(src)
    lo, hi = 0, len(src)
    if impl:
        lo, hi = _find_impl_range(src, clean, impl)
    # exclude #[cfg(test)] mod tests
    mt = re.search(r"#\[cfg\(test\)\]\s*(pub\s+)?mod\s+\w+\s*\{", clean)
    if mt and mt.start() < hi and not impl:
        hi = min(hi, mt.start())
    if kind == "fn":
        pat = re.compile(r"^[ \t]*(?:pub(?:\([a-z]+\))?\s+)?(?:const\s+)?fn\s+%s\b" % re.escape(name), re.M)
        ms = [m for m in pat.finditer(clean, lo, hi)]
        # only depth-1 matches relative to the search range when in impl; when not in impl require top-level or any (unique)
        if len(ms) != 1:
            raise Undecided("lost anchor: fn %s in %s%s matches %d times" % (name, file_rel, " (%s)" % impl if impl else "", len(ms)))
        m = ms[0]
        ob, depth = -1, 0
        for j in range(m.end(), len(clean)):
            ch = clean[j]
            if ch in "([":
                depth += 1
            elif ch in ")]":
                depth -= 1
            elif depth == 0 and ch == "{":
                ob = j
                break
            elif depth == 0 and ch == ";":
                break
        if ob < 0:
            raise Undecided("fn %s has no body" % name)
        cb = _match_brace(clean, ob)
        sig = src[m.start():ob].rstrip()
        body = src[ob:cb + 1]
        return {"sig": sig, "body": body, "start_line": src.count("\n", 0, m.start()) + 1,
                "body_line": src.count("\n", 0, ob) + 1, "file": file_rel}
    if kind == "impl":
        a, b = _find_impl_range(src, clean, name)
        start = clean.rfind("\n", 0, a) + 1
        return {"text": src[start:b + 1], "start_line": src.count("\n", 0, start) + 1, "file": file_rel}
    if kind in ("struct", "enum"):
        pat = re.compile(r"^[ \t]*(?:pub(?:\([a-z]+\))?\s+)?%s\s+%s\b" % (kind, re.escape(name)), re.M)
        ms = [m for m in pat.finditer(clean, lo, hi)]
        if len(ms) != 1:
            raise Undecided("lost anchor: %s %s in %s matches %d times" % (kind, name, file_rel, len(ms)))
        m = ms[0]
        # first `{` or `;` outside (), [] (tuple structs carry `;` inside array types)
        ob, semi, depth = -1, -1, 0
        for j in range(m.end(), len(clean)):
            ch = clean[j]
            if ch in "([":
                depth += 1
            elif ch in ")]":
                depth -= 1
            elif depth == 0 and ch == "{":
                ob = j
                break
            elif depth == 0 and ch == ";":
                semi = j
                break
        if semi >= 0:
            end = semi
        else:
            end = _match_brace(clean, ob)
        # derives of the source item (R0 drops them unless a unit asks to keep one with @opt keep_derive=)
        pre = src[max(0, m.start() - 400):m.start()]
        md = re.findall(r"#\[derive\(([^)]*)\)\]", pre)
        derives = [x.strip() for x in (md[-1].split(",") if md else [])]
        return {"text": src[m.start():end + 1], "start_line": src.count("\n", 0, m.start()) + 1, "file": file_rel, "derives": derives}
    if kind in ("const", "type", "implconst"):
        kw = "const" if kind != "type" else "type"
        pat = re.compile(r"^[ \t]*(?:pub(?:\([a-z]+\))?\s+)?%s\s+%s\b" % (kw, re.escape(name)), re.M)
        ms = [m for m in pat.finditer(clean, lo, hi)]
        if len(ms) != 1:
            raise Undecided("lost anchor: %s %s in %s matches %d times" % (kw, name, file_rel, len(ms)))
        m = ms[0]
        depth, end = 0, -1
        for j in range(m.end(), len(clean)):
            ch = clean[j]
            if ch in "([{":
                depth += 1
            elif ch in ")]}":
                depth -= 1
            elif ch == ";" and depth == 0:
                end = j
                break
        return {"text": src[m.start():end + 1], "start_line": src.count("\n", 0, m.start()) + 1, "file": file_rel}
    raise Undecided("unknown item kind %s" % kind)


_LOOP_RE = re.compile(r"\b(while|for|loop)\b")


def _loop_headers(body_clean):
    """Positions (start_of_keyword, index_of_open_brace) of loops in a body, in textual order."""
    res = []
    for m in _LOOP_RE.finditer(body_clean):
        # 'for' in 'for<'a>' HRTB is not expected in these bodies
        ob = body_clean.find("{", m.end())
        if ob < 0:
            continue
        res.append((m.start(), ob))
    return res


def rewrite_arrayvec(text, counts):
    """R3: `ArrayVec<[T; N]>` -> `ArrayVec<T, { N }>` (tinyvec stand-in of the prelude, capacity as const generic)."""
    out = []
    i = 0
    while True:
        m = re.compile(r"ArrayVec(?:::)?<\s*\[").search(text, i)
        if not m:
            out.append(text[i:])
            break
        j = m.start()
        out.append(text[i:j])
        k = m.end()
        open_end = k
        depth = 1
        semi = -1
        while k < len(text) and depth:
            ch = text[k]
            if ch in "[(<":
                depth += 1
            elif ch in "])>":
                if ch == ">" and text[k - 1] == "-":
                    pass
                else:
                    depth -= 1
            elif ch == ";" and depth == 1:
                semi = k
            k += 1
        # k is just past the matching ']'
        inner_t = text[open_end:semi].strip()
        inner_n = text[semi + 1:k - 1].strip()
        inner_t = rewrite_arrayvec(inner_t, counts)
        out.append("%s<%s, { %s }" % ("ArrayVec::" if "::<" in m.group(0) else "ArrayVec", inner_t, inner_n))
        counts["R3"] = counts.get("R3", 0) + 1
        while k < len(text) and text[k] in " \t\n,":   # rustfmt's multi-line form: `ArrayVec<\n [T; N],\n>`
            k += 1
        i = k  # the closing '>' of ArrayVec<...> follows in the source text
    return "".join(out)


def rewrite_index(text, names, counts):
    """R12 (declared per item with `@opt idx=a,b.c`): indexing of a fixed-capacity vector through tinyvec's Index / IndexMut
    impls: `&mut NAME[E]` -> `NAME.idx_mut(E)`, `NAME[E]` -> `(*NAME.idx(E))` (stand-in methods: panic iff E >= len)."""
    for name in names:
        # R20a-c (same declaration): range indexing of the vector. `v[a..b].copy_from_slice(s)` -> v.copy_range(a, b, s),
        # `v[a..].copy_from_slice(s)` -> v.copy_tail(a, s), `&v[a..]` -> v.tail(a); the stand-in methods require exactly what
        # core's range index and copy_from_slice panic on
        e = r"((?:[^\[\]\.]|\.(?!\.))+)"
        for rid, rx2, rep2 in (("R20a-range-copy", r"(?<![\w\.])%s\[%s\.\.%s\]\s*\.copy_from_slice\(" % (re.escape(name), e, e), name + r".copy_range(\1, \2, "),
                               ("R20b-tail-copy", r"(?<![\w\.])%s\[%s\.\.\]\s*\.copy_from_slice\(" % (re.escape(name), e), name + r".copy_tail(\1, "),
                               ("R20c-tail", r"&%s\[%s\.\.\]" % (re.escape(name), e), name + r".tail(\1)")):
            text, n = re.subn(rx2, rep2, text)
            if n:
                counts[rid] = counts.get(rid, 0) + n
        text, n = re.subn(r"(?<![\w\.])%s\.get_mut\(((?:[^()]|\([^()]*\))*)\)\.is_some\(\)" % re.escape(name), name + r".has(\1)", text)
        if n:
            counts["R12-has"] = counts.get("R12-has", 0) + n      # `v.get_mut(i).is_some()` == `i < v.len()`
        rx = re.compile(r"(&mut\s+)?(?<![\w\.])%s\[((?:[^\[\]]|\[[^\[\]]*\])*)\](\s*=(?!=))?" % re.escape(name))

        def rep(m):
            if ".." in m.group(2):
                return m.group(0)      # a range index is not element access (R20)
            counts["R12-index"] = counts.get("R12-index", 0) + 1
            if m.group(1):
                return "%s.idx_mut(%s)" % (name, m.group(2))
            if m.group(3):
                return "*%s.idx_mut(%s) =" % (name, m.group(2))     # `v[i] = e` (IndexMut)
            return "(*%s.idx(%s))" % (name, m.group(2))
        text = rx.sub(rep, text)
    return text


def apply_rewrites(text, counts, idx_names=None):
    text = rewrite_arrayvec(text, counts)
    if idx_names:
        text = rewrite_index(text, idx_names, counts)
    text, n = re.subn(r"\bfor _ in\b", "for _i in", text)
    if n:
        counts["R8-for-underscore"] = counts.get("R8-for-underscore", 0) + n
    for rid, rx, rep, _what in REWRITES:
        text, n = rx.subn(rep, text)
        if n:
            counts[rid] = counts.get(rid, 0) + n
    return text


def _find_anchor(body, anchor, fn_name, counts):
    """Position of a statement anchor in a function body. The anchor is the beginning of a statement; when the exact text is
    gone (the statement was edited further right) the longest prefix of at least 6 characters that still identifies exactly
    one place is used - the hint stays attached to the same statement. No unique prefix => lost anchor (undecided)."""
    idxs = [mm.start() for mm in re.finditer(re.escape(anchor), body)]
    if len(idxs) == 1:
        return idxs
    if len(idxs) == 0:
        for k in range(len(anchor) - 1, 5, -1):
            pre = anchor[:k]
            hits = [mm.start() for mm in re.finditer(re.escape(pre), body)]
            if len(hits) == 1:
                counts["anchor-prefix-fallback"] = counts.get("anchor-prefix-fallback", 0) + 1
                return hits
            if len(hits) > 1:
                break
    raise Undecided("lost anchor: %r occurs %d times in fn %s" % (anchor, len(idxs), fn_name))


def render_fn(item, cut, counts):
    sig = cut["sig"]
    body = cut["body"]
    # R0: result naming  `-> T` => `-> (r: T)` so that ensures can talk about the result
    opts = item["opts"]
    rname = opts.get("ret", "r")
    m = re.search(r"\)\s*->\s*(.+)$", sig, re.S)
    if m and not re.match(r"\(\s*[A-Za-z_][A-Za-z0-9_]*\s*:", m.group(1).lstrip()):
        rt = m.group(1).strip()
        where = ""
        mw = re.search(r"\bwhere\b", rt)
        if mw:
            where = " " + rt[mw.start():]
            rt = rt[:mw.start()].strip()
        sig = sig[:m.start()] + ") -> (%s: %s)%s" % (rname, rt, where)
        counts["R0-name-result"] = counts.get("R0-name-result", 0) + 1
    if "traitfree" in opts:
        # R21: a provided (default) method of `trait HashChain` becomes the free function hc_<name><H: HashChain>: the receiver
        # is the explicit parameter `hasher`, `Self::` is `H::`, calls to sibling provided methods go through R4
        sig, n = re.subn(r"\bfn\s+%s\s*\(" % re.escape(item["name"]), "pub fn hc_%s<H: HashChain>(" % item["name"], sig, count=1)
        if n != 1:
            raise Undecided("lost anchor: signature of provided trait method %s" % item["name"])
        sig = re.sub(r"\(\s*&mut self\s*,", "(hasher: &mut H,", sig)
        sig = re.sub(r"\(\s*&self\s*,", "(hasher: &H,", sig)
        sig = re.sub(r"\bSelf::", "H::", sig)
        counts["R21-trait-provided-fn"] = counts.get("R21-trait-provided-fn", 0) + 1
    if "rename" in opts:
        sig, n = re.subn(r"\bfn\s+%s\b" % re.escape(item["name"]), "fn " + opts["rename"], sig, count=1)
        counts["R9-rename-def"] = counts.get("R9-rename-def", 0) + n
    if "sigsub" in opts:
        # @opt sigsub=/regex/replacement/   (declared, counted rewrite of the signature, e.g. pub(crate) -> pub)
        _, rx, rep, _ = opts["sigsub"].split("/", 3)
        sig, n = re.subn(rx, rep, sig)
        counts["sigsub"] = counts.get("sigsub", 0) + n
    if opts.get("external_body") or item.get("imported_from"):
        # contract only: the body is not part of this unit (assumed here / proved in the unit it is imported from), so an
        # edit inside it can neither lose an anchor nor introduce an unsupported construct in THIS unit
        sig = apply_rewrites(sig, counts)
        if re.search(r"\bconst\s+fn\b", sig):
            # rustc evaluates const fns while type checking (array lengths, capacity constants): keep the body text
            kept = apply_rewrites(body, counts)
        else:
            kept = "{ unimplemented!() } // body not part of this unit"
        return sig + "\n" + (item["sig"] + "\n" if item["sig"].strip() else "") + kept
    # loops first (positions refer to the unmodified body)
    body_clean = _strip_tokens(body)
    inserts = []  # (pos, text)
    heads = _loop_headers(body_clean)
    for k, text in item["loops"]:
        if k >= len(heads):
            raise Undecided("lost anchor: loop %d of fn %s (body has %d loops)" % (k, item["name"], len(heads)))
        inserts.append((heads[k][1], "\n" + text + "\n"))
    for k, text in item.get("loopstarts", []):
        if k >= len(heads):
            raise Undecided("lost anchor: loop %d of fn %s (body has %d loops)" % (k, item["name"], len(heads)))
        inserts.append((heads[k][1] + 1, "\n/*@hint-begin*/\n" + text + "\n/*@hint-end*/\n"))
    for k, text in item.get("loopends", []):
        if k >= len(heads):
            raise Undecided("lost anchor: loop %d of fn %s (body has %d loops)" % (k, item["name"], len(heads)))
        inserts.append((_match_brace(body_clean, heads[k][1]), "\n/*@hint-begin*/\n" + text + "\n/*@hint-end*/\n"))
    for k, text in item.get("afterloops", []):
        if k >= len(heads):
            raise Undecided("lost anchor: loop %d of fn %s (body has %d loops)" % (k, item["name"], len(heads)))
        inserts.append((_match_brace(body_clean, heads[k][1]) + 1, "\n/*@hint-begin*/\n" + text + "\n/*@hint-end*/\n"))
    for anchor, text in item["before"]:
        if anchor == "@@START":
            inserts.append((1, "\n/*@hint-begin*/\n" + text + "\n/*@hint-end*/\n"))
            continue
        idxs = _find_anchor(body, anchor, item["name"], counts)
        ls = body.rfind("\n", 0, idxs[0]) + 1
        inserts.append((ls, "/*@hint-begin*/\n" + text + "\n/*@hint-end*/\n"))
    for anchor, text in item["after"]:
        idxs = _find_anchor(body, anchor, item["name"], counts)
        le = body.find("\n", idxs[0])
        inserts.append((le + 1, "/*@hint-begin*/\n" + text + "\n/*@hint-end*/\n"))
    for pos, text in sorted(inserts, key=lambda x: -x[0]):
        body = body[:pos] + text + body[pos:]
    if "traitfree" in opts and not (opts.get("external_body") or item.get("imported_from")):
        body = re.sub(r"\bSelf::", "H::", body)
        body = re.sub(r"\bself\.(do_actual_hash_chain|do_hash_chain)\(", r"hc_\1(hasher, ", body)
        body = re.sub(r"\bself\b", "hasher", body)
    body = apply_rewrites(body, counts, [x.strip() for x in opts.get("idx", "").split(",") if x.strip()])
    sig = apply_rewrites(sig, counts)
    for key in sorted(k for k in opts if k.startswith("bodysub")):
        # @opt bodysub=|regex|replacement| : declared per-item rewrite (type annotations, ==/!= on derived PartialEq), counted
        sep = opts[key][0]
        _, rx, rep, _ = opts[key].split(sep, 3)
        body, n = re.subn(rx, rep, body)
        m_ann = re.match(r"let mut (\w+) = ", rx)
        if n == 0 and m_ann and re.search(r"\blet mut %s\s*:" % m_ann.group(1), body):
            # the declared rewrite only adds a type annotation (Verus infers less than rustc); the source already carries one
            counts["R10-annotation-already-present"] = counts.get("R10-annotation-already-present", 0) + 1
            continue
        if n != 1:
            raise Undecided("lost anchor: %s %r matched %d times in fn %s" % (key, rx, n, item["name"]))
        counts["R10-declared-bodysub"] = counts.get("R10-declared-bodysub", 0) + n
    if opts.get("external_body"):
        body = "{ unimplemented!() } // body not part of this unit (assumed contract)"
    spliced = sig + "\n" + (item["sig"] + "\n" if item["sig"].strip() else "") + body
    return spliced


def generate(u, repo=None):
    counts = {}
    chunks = []       # (text, meta)
    extraction = []
    open_impl = None
    for it in u.items:
        try:
            cut = cut_item(it["file"], it["kind"], it["name"], it["impl"], repo)
        except Undecided:
            if it.get("imported_from"):
                # an item of an imported unit that is gone or reshaped: this unit may not need it at all (the verifier's
                # buffer type is irrelevant to the signer units). Leave it out; if it is needed, Verus says so (=> undecided)
                counts["imported-item-not-found-skipped"] = counts.get("imported-item-not-found-skipped", 0) + 1
                continue
            raise
        if it["kind"] == "fn":
            text = render_fn(it, cut, counts)
            if it["opts"].get("external_body"):
                text = "#[verifier::external_body] // contract assumed in this unit (see DESIGN: proved by the Kani pair)\n" + text
            if it.get("imported_from"):
                text = "#[verifier::external_body] // contract proved in unit %s\n" % it["imported_from"] + text
            elif not it["opts"].get("external_body") and _LOOP_RE.search(_strip_tokens(cut["body"])):
                # loop bodies see what was established before the loop about variables the loop does not assign: a local
                # hoisted out of a loop (`let w = self.get_w();` before `for ..`) must not need a new invariant clause
                text = "#[verifier::loop_isolation(false)]\n" + text
        else:
            text = cut["text"]
            # R0: drop derives/attrs is implicit (we cut from the keyword); pub(crate) kept
            text = apply_rewrites(text, counts)
            if it["opts"].get("needs_derive"):
                # the item must still carry these derives in /repo (their semantics is assumed by a rewrite, e.g. R16 clone_of)
                want = [x.strip() for x in it["opts"]["needs_derive"].split(",")]
                missing = [x for x in want if x not in cut.get("derives", [])]
                if missing:
                    raise Undecided("lost anchor: %s no longer derives %s" % (it["name"], missing))
            if it["opts"].get("keep_derive"):
                want = [x.strip() for x in it["opts"]["keep_derive"].split(",")]
                missing = [x for x in want if x not in cut.get("derives", [])]
                if missing:
                    raise Undecided("lost anchor: %s no longer derives %s" % (it["name"], missing))
                text = "#[derive(%s)]\n" % ", ".join(want) + text
                counts["R0-keep-derive"] = counts.get("R0-keep-derive", 0) + 1
            if it["kind"] == "struct":
                # R0-vis: all fields pub (visibility only; lets contracts of pub fns mention them)
                text, n = re.subn(r"^(\s+)([a-z_][a-z0-9_]*\s*:)", r"\1pub \2", text, flags=re.M)
                counts["R0-vis"] = counts.get("R0-vis", 0) + n
                if re.match(r"\s*struct\b", text):
                    text = re.sub(r"^(\s*)struct\b", r"\1pub struct", text, count=1)     # private type: visibility only
                    counts["R0-vis"] += 1
                # tuple structs: `struct X(T, U)` -> `struct X(pub T, pub U)`
                mt = re.search(r"\bstruct\s+\w+\s*(?:<[^>(]*>)?\s*\(", text)
                if mt:
                    depth, j, start, parts = 1, mt.end(), mt.end(), []
                    while j < len(text) and depth:
                        ch = text[j]
                        if ch in "([<":
                            depth += 1
                        elif ch in ")]>":
                            depth -= 1
                            if depth == 0:
                                parts.append(text[start:j])
                                break
                        elif ch == "," and depth == 1:
                            parts.append(text[start:j])
                            start = j + 1
                        j += 1
                    newparts = [(" pub " + q.strip()) if q.strip() and not q.strip().startswith("pub") else q for q in parts]
                    text = text[:mt.end()] + ",".join(newparts) + text[j:]
                    counts["R0-vis"] = counts.get("R0-vis", 0) + len([q for q in parts if q.strip() and not q.strip().startswith("pub")])
            if it["opts"].get("execconst"):
                # R14: `pub const X: T = E;` -> `pub exec const X: T ensures <clause> { E }` (Verus cannot call an exec fn in
                # a spec-visible const initialiser; the value is the same expression, the ensures clause is proved from it)
                text, n = re.subn(r"(?s)^(\s*(?:pub(?:\([a-z]+\))?\s+)?)const\s+(\w+)\s*:\s*([^=]+?)\s*=\s*(.*);\s*$",
                                  lambda mm: "%sexec const %s: %s\n    ensures %s\n{ %s%s }" % (mm.group(1), mm.group(2), mm.group(3), it["opts"]["execconst"],
                                                                              ("proof { %s } " % it["opts"]["execconst_proof"]) if it["opts"].get("execconst_proof") else "", mm.group(4)), text)
                if n != 1:
                    raise Undecided("lost anchor: const %s is not of the form `const X: T = E;`" % it["name"])
                counts["R14-exec-const"] = counts.get("R14-exec-const", 0) + n
            if it["opts"].get("sub"):
                _, rx, rep, _ = it["opts"]["sub"].split("/", 3)
                text, n = re.subn(rx, rep, text)
                counts["itemsub"] = counts.get("itemsub", 0) + n
        this_impl = None if it["opts"].get("traitfree") else it["impl"]
        if this_impl != open_impl:
            if open_impl is not None:
                chunks.append(("}\n", None))
            if this_impl is not None:
                chunks.append((this_impl + " {\n", None))
            open_impl = this_impl
        chunks.append((text + "\n\n", {"item": it["name"], "kind": it["kind"], "file": it["file"], "src_line": cut["start_line"]}))
        extraction.append({"item": ("%s::" % it["impl"] if it["impl"] else "") + it["name"], "kind": it["kind"],
                           "from": "%s:%d" % (it["file"], cut["start_line"]), "lines": text.count("\n") + 1})
    if open_impl is not None:
        chunks.append(("}\n", None))
    head = "#![allow(unused_imports, unused_variables, dead_code, unused_mut, unused_parens, non_snake_case)]\nuse vstd::prelude::*;\n"
    for x in u.uses:
        head += "use %s;\n" % x
    head += "verus! {\n"
    text = head + u.prelude + "\n"
    linemap = []  # (gen_start, gen_end, meta)
    for t, meta in chunks:
        start = text.count("\n") + 1
        text += t
        end = text.count("\n")
        if meta:
            linemap.append((start, end, meta))
    text += u.epilogue + "\n} // verus!\nfn main() {}\n"
    return text, linemap, counts, extraction


_FN_DECL = re.compile(r"^\s*(?:pub(?:\([a-z]+\))?\s+)?(?:open\s+|closed\s+|uninterp\s+)?(?:broadcast\s+)?(?:const\s+)?(?:proof\s+|spec\s+|exec\s+)?fn\s+([A-Za-z0-9_]+)")


def fn_ranges(text):
    """(start_line, end_line, name) for every fn with a body in the generated text (approximate, brace matched)."""
    clean = _strip_tokens(text)
    res = []
    for m in re.finditer(r"^[ \t]*(?:pub(?:\([a-z]+\))?[ \t]+)?(?:(?:open|closed|uninterp|broadcast|const|proof|spec|exec)[ \t]+)*fn[ \t]+([A-Za-z0-9_]+)", clean, re.M):
        ob, depth = -1, 0
        for j in range(m.end(), len(clean)):
            ch = clean[j]
            if ch in "([":
                depth += 1
            elif ch in ")]":
                depth -= 1
            elif depth == 0 and ch == "{":
                ob = j
                break
            elif depth == 0 and ch == ";":
                break
        if ob < 0:
            continue
        try:
            cb = _match_brace(clean, ob)
        except Undecided:
            continue
        res.append((clean.count("\n", 0, m.start()) + 1, clean.count("\n", 0, cb) + 1, m.group(1)))
    return res


HINT_KINDS = ("assertion failed", "bitvector assertion not satisfied",
              "Resource limit", "rlimit", "assertion not satisfied", "requires not satisfied", "decreases not satisfied")
CONTRACT_KINDS = ("postcondition not satisfied", "precondition not satisfied", "possible arithmetic underflow/overflow",
                  "possible division by zero", "index out of bounds", "invariant not satisfied before loop",
                  "invariant not satisfied at end of loop body",
                  "possible bit shift underflow/overflow", "recommendation not met", "slice", "unwrap", "panic", "unreachable",
                  "possible underflow", "possible overflow", "expect")


def run_unit(u, scratch, repo=None):
    t0 = time.time()
    text, linemap, counts, extraction = generate(u, repo)
    gen = os.path.join(scratch, u.name + ".rs")
    with open(gen, "w") as f:
        f.write(text)
    keep = os.path.join(VERIF, "generated")
    os.makedirs(keep, exist_ok=True)
    with open(os.path.join(keep, u.name + ".rs"), "w") as f:
        f.write(text)
    cmd = ["verus", gen, "--output-json", "--time-expanded", "--multiple-errors", "30"]
    if u.rlimit:
        cmd += ["--rlimit", u.rlimit]
    try:
        p = subprocess.run(cmd, cwd=scratch, capture_output=True, text=True, timeout=1800)
    except subprocess.TimeoutExpired:
        raise Undecided("verus timed out on unit %s" % u.name)
    wall = round(time.time() - t0, 2)
    try:
        data = json.loads(p.stdout[p.stdout.index("{"):])
    except Exception:
        raise Undecided("verus produced no JSON for %s: %s" % (u.name, (p.stderr or p.stdout)[-1500:]))
    vr = data.get("verification-results", {})
    stderr = p.stderr
    if vr.get("encountered-vir-error") or (vr.get("encountered-error") and vr.get("verified", 0) == 0 and vr.get("errors", 0) == 0):
        # rustc / VIR level error: unsupported construct or the code changed shape => undecided, never an alarm
        first = re.search(r"^error[^\n]*\n(?:[^\n]*\n){0,6}", stderr, re.M)
        raise Undecided("verus front-end error in unit %s (unsupported construct or changed shape): %s" % (
            u.name, (first.group(0) if first else stderr[-800:]).strip()[:900]))
    mrust = re.search(r"^error\[E\d+\]: [^\n]*\n(?:[^\n]*\n){0,5}", stderr, re.M)
    if mrust:
        raise Undecided("rustc error in generated unit %s (unsupported construct or changed shape): %s" % (u.name, mrust.group(0).strip()[:700]))
    # per-function results
    funcs = []
    solver_ms = 0
    for mod in data.get("times-ms", {}).get("smt", {}).get("smt-run-module-times", []):
        for fb in mod.get("function-breakdown", []):
            funcs.append({"function": fb["function"].split("::", 1)[-1], "mode": fb.get("mode:", fb.get("mode")),
                          "ms": fb.get("time"), "rlimit": fb.get("rlimit"), "success": fb.get("success")})
            solver_ms += fb.get("time", 0)
    ranges = fn_ranges(text)

    def enclosing(line):
        best = None
        for s, e, n in ranges:
            if s <= line <= e and (best is None or s >= best[0]):
                best = (s, e, n)
        return best[2] if best else "?"

    clean_all = _strip_tokens(text)
    impl_rs = []
    for mi in re.finditer(r"^[ \t]*impl\b[^{;]*\{", clean_all, re.M):
        try:
            end = _match_brace(clean_all, mi.end() - 1)
        except Undecided:
            continue
        hdr = text[mi.start():mi.end() - 1]
        t = hdr.split(" for ")[-1] if " for " in hdr else re.sub(r"^\s*impl\s*(<[^>]*>)?\s*", "", hdr)
        mt = re.match(r"\s*([A-Za-z_]\w*)", t)
        if mt:
            impl_rs.append((clean_all.count("\n", 0, mi.start()) + 1, clean_all.count("\n", 0, end) + 1, mt.group(1)))

    def qualified(line):
        """`Type::fn` for methods (unique substring for --verify-function), plain name otherwise"""
        n = enclosing(line)
        best = None
        for s0, e0, ty in impl_rs:
            if s0 <= line <= e0 and (best is None or s0 >= best[0]):
                best = (s0, e0, ty)
        return "%s::%s" % (best[2], n) if best and n != "?" else n

    def src_of(line):
        for s, e, meta in linemap:
            if s <= line <= e:
                return "%s (extracted from %s:%d+%d)" % (meta["item"], meta["file"], meta["src_line"], line - s)
        return None

    hint_lines = set()
    inside = False
    for ln, l in enumerate(text.split("\n"), 1):
        if "/*@hint-begin*/" in l:
            inside = True
        if inside:
            hint_lines.add(ln)
        if "/*@hint-end*/" in l:
            inside = False
    def parse_errors(err_text):
        out = []
        for m in re.finditer(r"^error(?:\[[A-Z0-9]+\])?: ([^\n]*)\n\s*--> [^\n:]*:(\d+):(\d+)", err_text, re.M):
            msg, line = m.group(1), int(m.group(2))
            if msg.startswith("aborting due to"):
                continue
            out.append({"msg": msg, "gen_line": line, "fn": enclosing(line), "src": src_of(line), "in_hint": line in hint_lines,
                        "text": text.split("\n")[line - 1].strip()[:200] if line - 1 < len(text.split("\n")) else ""})
        return out

    errors = parse_errors(stderr)
    # A function that exhausts the default resource limit is re-run alone with a 30x limit: a false obligation usually makes
    # Z3 search until the limit, and the larger budget turns that into a definite "postcondition not satisfied" (or a pass).
    retried = {}
    for fn_name, fn_sel in sorted({(e["fn"], qualified(e["gen_line"])) for e in errors if "Resource limit" in e["msg"] and e["fn"] != "?"}):
        cmd2 = ["verus", gen, "--output-json", "--multiple-errors", "30", "--rlimit", "300", "--verify-root",
                "--verify-function", fn_sel]
        try:
            p2 = subprocess.run(cmd2, cwd=scratch, capture_output=True, text=True, timeout=900)
        except subprocess.TimeoutExpired:
            retried[fn_name] = "timeout"
            continue
        try:
            d2 = json.loads(p2.stdout[p2.stdout.index("{"):]).get("verification-results", {})
        except Exception:
            retried[fn_name] = "no json"
            continue
        e2 = [e for e in parse_errors(p2.stderr) if e["fn"] == fn_name]
        if d2.get("errors", 0) == 0 and d2.get("verified", 0) >= 1 and not d2.get("encountered-vir-error"):
            errors = [e for e in errors if not (e["fn"] == fn_name and "Resource limit" in e["msg"])]
            retried[fn_name] = "verified with rlimit 300"
            vr = dict(vr)
            vr["errors"] = vr.get("errors", 0) - 1
            vr["verified"] = vr.get("verified", 0) + 1
        elif e2 and not any("Resource limit" in e["msg"] for e in e2):
            errors = [e for e in errors if not (e["fn"] == fn_name and "Resource limit" in e["msg"])] + e2
            retried[fn_name] = "definite result with rlimit 300: %d error(s)" % len(e2)
        else:
            retried[fn_name] = "still undecided with rlimit 300"
    # canaries
    canary_names = {n for _, _, n in ranges if n.startswith("canary_")} | set(u.expect_fail)
    failed_canaries = {e["fn"] for e in errors if e["fn"] in canary_names}
    canaries_ok = failed_canaries == canary_names
    real_errors = [e for e in errors if e["fn"] not in canary_names]
    verified = vr.get("verified", 0)
    nerr = vr.get("errors", 0)
    obligations = verified + nerr - len(canary_names & failed_canaries) + len(canary_names)  # canary "fails as required" counts as discharged
    discharged = verified + len(failed_canaries) if not real_errors else verified + len(failed_canaries)
    res = {
        "cmd": "verus <generated %s.rs: extracted from /repo working tree> --output-json --time-expanded" % u.name,
        "wall_s": wall, "solver_s": round(solver_ms / 1000.0, 2), "obligations": obligations, "discharged": discharged,
        "functions": [f["function"] for f in funcs if f["success"] and not f["function"].startswith("canary_")],
        "rewrites": {k: v for k, v in counts.items()}, "extraction": extraction,
        "canaries": {"expected_to_fail": sorted(canary_names), "failed": sorted(failed_canaries)},
        "assumed": scan_assumed(text), "assumed_names": named_assumptions(u, text), "imports": u.imports,
        "samples": [{"engine": "verus", "function": f["function"], "mode": f["mode"], "rlimit": f["rlimit"]} for f in funcs[:3]],
        "output_tail": stderr[-3000:], "rlimit_retries": retried,
    }
    if not canaries_ok:
        res["status"] = "undecided"
        res["reason"] = "vacuity guard: canaries that verified although they must fail: %s" % sorted(canary_names - failed_canaries)
        return res
    if not real_errors and nerr == len(failed_canaries):
        res["status"] = "passed"
        return res
    if not real_errors:
        res["status"] = "undecided"
        res["reason"] = "verus reports %d errors but only %d could be located" % (nerr, len(failed_canaries))
        return res
    contract_fail = []
    hint_fail = []
    for e in real_errors:
        desc = "%s in %s%s: `%s`" % (e["msg"], e["fn"], (" [" + e["src"] + "]") if e["src"] else "", e["text"])
        if e["in_hint"] or e["fn"].startswith("lemma_") or (
                any(k in e["msg"] for k in HINT_KINDS) and not any(k in e["msg"] for k in ("precondition", "postcondition"))):
            hint_fail.append(desc)
        else:
            contract_fail.append(desc)
    if contract_fail:
        res["status"] = "failed"
        res["failed"] = contract_fail + hint_fail
    else:
        res["status"] = "undecided"
        res["reason"] = "only proof hints / loop-invariant maintenance failed (proof maintenance, not a verdict): " + "; ".join(hint_fail)[:1500]
        res["hint_failures"] = hint_fail
    return res


def named_assumptions(u, text):
    """Names behind the counts of scan_assumed, measured on the generated text of this run:
    - contracts of /repo functions assumed in this unit (declared `@opt external_body`: discharged elsewhere, see DESIGN A.3)
    - contracts imported from other units (proved there)
    - trusted stand-in functions / axioms of the prelude (tinyvec, core, hash primitive)"""
    assumed_here = sorted({("%s::%s" % (re.sub(r"^impl(<[^>]*>)?\s*", "", it["impl"]).split(" for ")[-1].split("<")[0].strip(), it["name"]) if it["impl"] else it["name"])
                           for it in u.items if it["kind"] == "fn" and it["opts"].get("external_body") and not it.get("imported_from")})
    imported = sorted({it["imported_from"] for it in u.items if it.get("imported_from")})
    standins = []
    for m in re.finditer(r"#\[verifier::external_body\]([^\n]*)\n\s*(?://[^\n]*\n\s*)*(?:#\[[^\]]*\]\s*)*(?:pub\s+)?(?:const\s+)?(?:proof\s+)?fn\s+(\w+)", text):
        if "proved in" in m.group(1) or "contract assumed in this unit" in m.group(1):
            continue     # imported from a unit that proves it / listed under repo_contracts_assumed_in_this_unit
        standins.append(m.group(2))
    axioms = re.findall(r"axiom fn\s+(\w+)", text) + re.findall(r"assume_specification\s*\[\s*([^\]]+)\]", text)
    uninterp = re.findall(r"uninterp spec fn\s+(\w+)", text)
    extracted = {it["name"] for it in u.items if it["kind"] == "fn"}
    return {"repo_contracts_assumed_in_this_unit": assumed_here, "contracts_imported_from_units": imported,
            "trusted_standin_fns": sorted(set(standins)), "axioms_and_assumed_specs": sorted(set(axioms)),
            "uninterpreted_spec_fns": sorted(set(uninterp))}


def scan_assumed(text):
    out = []
    for kw in ("external_body", "assume_specification", "assume(", "admit(", "#[verifier::external", "uninterp", "axiom fn"):
        n = text.count(kw)
        if n:
            out.append("%s x%d" % (kw, n))
    return out
