"""Cheap textual obligations re-checked on every run (DESIGN 3.1 item 7, C09 (iv))."""
import os
import re

from common import REPO


def _read(rel):
    with open(os.path.join(REPO, rel)) as f:
        return f.read()


def forbid_unsafe():
    try:
        s = _read("src/lib.rs")
    except OSError as e:
        return {"name": "forbid_unsafe_code", "ok": False, "detail": "cannot read src/lib.rs: %s" % e}
    ok = re.search(r"^#!\[forbid\(unsafe_code\)\]", s, re.M) is not None
    return {"name": "forbid_unsafe_code", "ok": ok,
            "detail": "#![forbid(unsafe_code)] present in src/lib.rs" if ok else "#![forbid(unsafe_code)] missing from src/lib.rs"}


_FORBIDDEN = [r"\bstatic\s+(?:mut\s+)?[A-Z_]", r"\bthread_local!", r"\b(?:Ref)?Cell<", r"\bOnceCell\b", r"\bAtomic[A-Z]\w*", r"\bOsRng\b",
              r"\bthread_rng\b", r"\bInstant\b", r"\bSystemTime\b", r"\blazy_static\b", r"\bMutex<", r"\bRwLock<", r"\bstd::env\b",
              r"\benv::var\b"]


def _strip_guarded(src):
    """remove `#[cfg(test)]` items and `#[cfg(feature = "fast_verify")]` items (attribute + following item/statement)"""
    import verus_engine
    clean = verus_engine._strip_tokens(src)
    out = []
    i = 0
    pat = re.compile(r"#\[cfg\((?:test|feature\s*=\s*\"fast_verify\"|all\(feature\s*=\s*\"fast_verify\"[^\]]*)\)\]")
    while True:
        m = pat.search(src, i)
        if not m:
            out.append(src[i:])
            break
        out.append(src[i:m.start()])
        # the guarded item ends at the first `;` at depth 0 or at the brace block that closes at depth 0
        depth = 0
        j = m.end()
        end = len(src)
        while j < len(clean):
            ch = clean[j]
            if ch in "([{":
                depth += 1
            elif ch in ")]}":
                depth -= 1
                if depth == 0 and ch == "}":
                    end = j + 1
                    break
                if depth < 0:
                    end = j
                    break
            elif ch == ";" and depth == 0:
                end = j + 1
                break
            elif ch == "," and depth == 0:
                end = j + 1
                break
            j += 1
        i = end
    return "".join(out)


def no_ambient_state():
    """C09 (iv): outside cfg(test) and cfg(feature = "fast_verify") the crate has no statics, interior mutability, RNG, clock or env access"""
    import verus_engine
    hits = []
    for root, _d, files in os.walk(os.path.join(REPO, "src")):
        for fn in files:
            if not fn.endswith(".rs"):
                continue
            path = os.path.join(root, fn)
            with open(path) as f:
                src = f.read()
            body = verus_engine._strip_tokens(_strip_guarded(src))
            for rx in _FORBIDDEN:
                for m in re.finditer(rx, body):
                    hits.append("%s: %s" % (os.path.relpath(path, REPO), body[max(0, m.start() - 20):m.end() + 20].replace("\n", " ").strip()))
    ok = not hits
    return {"name": "no_ambient_state", "ok": ok,
            "detail": "no static / thread_local / Cell / Atomic / RNG / clock / env access outside cfg(test) and cfg(feature=fast_verify)" if ok
            else "ambient state or nondeterminism source found: " + "; ".join(hits[:5])}


def run(pid):
    out = [forbid_unsafe()]
    if pid == "C09":
        out.append(no_ambient_state())
    return out
