"""Cheap textual obligations re-checked on every run (DESIGN 3.1 item 7, C09 (iv))."""
import os
import re

from common import REPO


def _read(rel):
    with open(os.path.join(REPO, rel)) as f:
        return f.read()


def forbid_unsafe():
    try:
        s = _read("src/lib.rs")
    except OSError as e:
        return {"name": "forbid_unsafe_code", "ok": False, "detail": "cannot read src/lib.rs: %s" % e}
    ok = re.search(r"^#!\[forbid\(unsafe_code\)\]", s, re.M) is not None
    return {"name": "forbid_unsafe_code", "ok": ok,
            "detail": "#![forbid(unsafe_code)] present in src/lib.rs" if ok else "#![forbid(unsafe_code)] missing from src/lib.rs"}


def run(pid):
    out = [forbid_unsafe()]
    return out
