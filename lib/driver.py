"""Per-property orchestration: select obligations, run engines, arbitrate, write evidence."""
import json
import os
import sys

from common import scratch_root as common_scratch_root
from common import (VERIF, REPO, EXIT_OK, EXIT_VIOLATION, EXIT_UNDECIDED, Scratch, Timer, log, load_known_findings,
                    write_evidence, write_replay, repo_fingerprint, NCPU)
import kani_engine
import verus_engine
import static_guards

PROPS_META = os.path.join(VERIF, "contracts", "props.json")

COMMON_TRUSTED = [
    "Kani 0.68 (rustc MIR -> goto translation), CBMC 6.11 and its SAT back end (CaDiCaL); machine integers are bit-precise",
    "Verus 0.2026.09.13 + Z3; exec integers are machine integers (overflow is an obligation), spec integers are mathematical",
    "kani stub: zeroize::optimization_barrier -> no-op (its body is an empty inline-asm barrier)",
    "kani stub: tinyvec <[T;N] as Array>::default -> [T::default(); N] (same value, avoids closure machinery)",
    "safe Rust frame conditions (#![forbid(unsafe_code)] re-checked textually on every run)",
    "Kani harnesses run with CBMC pointer-validity checks off (--no-memory-safety-checks): memory safety is taken from the Rust type system; unsafe code inside core/alloc/zeroize/subtle is not re-verified. Rust-level panics (bounds, overflow, unwrap, capacity) remain checked.",
]


def load_props_meta():
    with open(PROPS_META) as f:
        return json.load(f)


def match_known(pid, engine, unit, failed_desc, known):
    for k in known.get("open", []):
        if pid not in k.get("properties", [k.get("property")]):
            continue
        for ob in k.get("obligations", []):
            if ob.get("engine") == engine and ob.get("unit") == unit and ob.get("match", "") in failed_desc:
                return k
    return None


def main(a):
    pid = a.property
    tier = a.tier
    if getattr(a, "replay", None):
        # replay: show the stored violation and re-run exactly the failed obligation on /repo's current tree
        try:
            with open(a.replay) as f:
                rp = json.load(f)
        except Exception as e:
            print("cannot read replay file %s: %s" % (a.replay, e))
            return EXIT_UNDECIDED
        print("REPLAY property=%s failed_obligation=%s engine=%s" % (rp.get("property"), rp.get("failed_obligation"), rp.get("engine")))
        for fc in rp.get("failed_checks", [])[:10]:
            print("  failed: %s" % fc)
        cex = rp.get("counterexample") or {}
        if cex.get("inputs"):
            print("  inputs (kani concrete playback, in draw order):")
            for i in cex["inputs"][:40]:
                print("    %s = %s" % (i.get("value"), i.get("bytes")))
        print("  native replay: %s %s" % (cex.get("native_replay"), cex.get("native_panic", "")))
        a.only = rp.get("failed_obligation")
        tier = rp.get("tier", tier)
        a.replay = None
    timer = Timer()
    meta_all = load_props_meta()
    if pid not in meta_all:
        print("unknown property %s" % pid)
        return EXIT_UNDECIDED
    meta = meta_all[pid]
    known = load_known_findings()
    seed = int(os.environ.get("VERIF_SEED", "0") or 0)

    try:
        harnesses = [h for h in kani_engine.list_harnesses() if pid in h.props]
    except kani_engine.Undecided as e:
        print("UNDECIDED property=%s reason=%s" % (pid, e))
        return EXIT_UNDECIDED
    if tier == "quick":
        harnesses = [h for h in harnesses if h.tier == "quick" and pid in h.quick_props]
    elif tier == "thorough":
        # tier=extended: harnesses that need more than the thorough budget (hours / > 18 GB); run with --tier extended only
        harnesses = [h for h in harnesses if h.tier != "extended"]
    vunits = [u for u in verus_engine.list_units() if pid in u.props and (tier == "thorough" or u.tier == "quick")]
    if a.only:
        only = set(a.only.split(","))
        harnesses = [h for h in harnesses if h.name in only]
        vunits = [u for u in vunits if u.name in only]
    if a.list:
        for h in harnesses:
            print("kani ", h.name, h.tier, h.kind, h.cfg, h.funcs)
        for u in vunits:
            print("verus", u.name, u.tier)
        return 0

    undecided = []      # (unit, reason)
    violations = []     # dict
    known_hits = []     # (finding, unit)
    obligations = 0
    discharged = 0
    bounded_obl = 0
    bounded_passed = 0
    solver_s = 0.0
    units_ev = []
    samples = []
    functions = set()
    engines_used = set()
    checker_cmds = []
    inject_summary = None

    # ---------------------------------------------------------------- static guards (cheap, first)
    guards = static_guards.run(pid)
    for g in guards:
        obligations += 1
        if g["ok"]:
            discharged += 1
        else:
            violations.append({"unit": "static:" + g["name"], "engine": "static", "failed": [g["detail"]],
                               "cex": None, "kind": "proved"})
        units_ev.append({"engine": "static-scan", "unit": g["name"], "status": "passed" if g["ok"] else "failed",
                         "detail": g["detail"]})

    # ---------------------------------------------------------------- Verus
    if vunits:
        engines_used.add("verus-z3")
        with Scratch("verus-" + pid) as sc:
            # units are independent files: run them side by side (each is one rustc + z3 process)
            from concurrent.futures import ThreadPoolExecutor

            def _run(u):
                try:
                    return verus_engine.run_unit(u, sc)
                except verus_engine.Undecided as e:
                    return e
            with ThreadPoolExecutor(max_workers=int(os.environ.get("VERIF_VERUS_JOBS", "6"))) as ex:
                outcomes = list(ex.map(_run, vunits))
            for u, r in zip(vunits, outcomes):
                if isinstance(r, verus_engine.Undecided):
                    e = r
                    undecided.append((u.name, str(e)))
                    units_ev.append({"engine": "verus-z3", "unit": u.name, "status": "undecided", "reason": str(e)})
                    continue
                obligations += r["obligations"]
                discharged += r["discharged"]
                solver_s += r.get("solver_s", 0.0)
                functions.update(r.get("functions", []))
                checker_cmds.append(r["cmd"])
                ev = {"engine": "verus-z3", "unit": u.name, "status": r["status"], "obligations": r["obligations"],
                      "discharged": r["discharged"], "functions_verified": r.get("functions", []),
                      "wall_s": r.get("wall_s"), "solver_s": r.get("solver_s"), "rewrites": r.get("rewrites"),
                      "assumed": r.get("assumed"), "assumed_names": r.get("assumed_names"), "canaries": r.get("canaries"), "extraction": r.get("extraction")}
                units_ev.append(ev)
                if r.get("samples"):
                    samples.extend(r["samples"][:2])
                if r["status"] == "undecided":
                    undecided.append((u.name, r.get("reason", "")))
                elif r["status"] == "failed":
                    unmatched = []
                    for fdesc in r["failed"]:
                        k = match_known(pid, "verus", u.name, fdesc, known)
                        if k:
                            known_hits.append((k, u.name))
                        else:
                            unmatched.append(fdesc)
                    if unmatched:
                        violations.append({"unit": u.name, "engine": "verus", "failed": unmatched, "cex": None,
                                           "kind": "proved", "verus_output": r.get("output_tail", "")})

    # ---------------------------------------------------------------- escalation
    # A Verus unit that lost an anchor inside function F (the statement a hint / declared rewrite is attached to was edited)
    # cannot judge F. Every Kani harness of this property that has F under contract is then run as well, whatever its tier:
    # on the unchanged tree this never triggers; on an edited tree it trades minutes for a verdict with a counterexample.
    import re as _re
    escalated = []
    lost_fns = set()
    for uname, why in undecided:
        for m in _re.finditer(r"lost anchor[^;]*?\bin fn ([A-Za-z0-9_]+)|lost anchor: loop \d+ of fn ([A-Za-z0-9_]+)", why or ""):
            lost_fns.add(m.group(1) or m.group(2))
    if lost_fns and not a.only:
        have = {h.name for h in harnesses}
        for h in kani_engine.list_harnesses():
            if pid in h.props and h.name not in have and h.tier != "extended" and h.declared_timeout <= 2400 and any(f.split("::")[-1] in lost_fns for f in h.funcs):
                harnesses.append(h)
                escalated.append(h.name)
        if escalated:
            log("[escalation] Verus lost an anchor in %s: also running %s" % (sorted(lost_fns), escalated))

    # ---------------------------------------------------------------- Kani
    if harnesses:
        engines_used.add("kani-cbmc")
        by_cfg = {}
        for h in harnesses:
            by_cfg.setdefault((h.cfg, h.kani_args), []).append(h)
        # CBMC processes need 3-14 GB each: concurrent bin/check invocations serialise their Kani phase on a file lock so
        # that the machine is never over-committed (an OOM-killed cbmc would turn the whole group undecided)
        import fcntl
        # VERIF_KANI_STREAMS concurrent Kani phases (default 1; the seeded runner uses 2 for the light quick tier)
        streams = max(1, int(os.environ.get("VERIF_KANI_STREAMS", "1")))
        lockf = None
        for k in range(streams):
            f = open(os.path.join(common_scratch_root(), "hbsverif-kani-%d.lock" % k), "w")
            try:
                fcntl.flock(f, fcntl.LOCK_EX | fcntl.LOCK_NB)
                lockf = f
                break
            except OSError:
                f.close()
        if lockf is None:
            lockf = open(os.path.join(common_scratch_root(), "hbsverif-kani-0.lock"), "w")
            fcntl.flock(lockf, fcntl.LOCK_EX)
        # build configurations are independent crates builds: each gets its own scratch copy and they run side by side
        # (VERIF_KANI_PAR_CFGS at a time; the cores are shared out between them)
        from concurrent.futures import ThreadPoolExecutor as _TPE
        groups = sorted(by_cfg.items(), key=lambda kv: -max(h.declared_timeout for h in kv[1]))
        # (a runner that executes several checks at once - VERIF_KANI_STREAMS > 1 - keeps one configuration at a time per check)
        par = max(1, min(len(groups), int(os.environ.get("VERIF_KANI_PAR_CFGS", "1" if streams > 1 else "3"))))
        per_group_jobs = max(2, min(kani_engine.MAX_JOBS, (NCPU - 2) // par))
        scratches = []

        def _go(item):
            (cfg_, kargs_), hs_ = item
            scg = Scratch("kani-%s-%s" % (pid, cfg_))
            scratches.append(scg)
            try:
                summ = kani_engine.prepare(scg.path)
            except kani_engine.Undecided as e:
                return item, scg.path, None, None, str(e)
            res_, info_ = kani_engine.run_group(scg.path, cfg_, hs_, jobs=min(per_group_jobs, max(1, len(hs_))),
                                                extra_args=kargs_.split() if kargs_ else None)
            return item, scg.path, res_, info_, summ
        try:
            with _TPE(max_workers=par) as ex:
                group_results = list(ex.map(_go, groups))
            for ((cfg, kargs), hs), sc, results, info, summ in group_results:
                if results is None:
                    undecided.append(("kani-inject", summ))
                    continue
                if inject_summary is None:
                    inject_summary = summ
                checker_cmds.append(info["cmd"])
                for h in hs:
                    r = results[h.name]
                    functions.update(h.funcs)
                    if h.kind != "bounded":
                        obligations += r["checks"]      # bounded stand-ins are reported separately, never counted as proved
                    solver_s += r.get("solver_s", 0.0)
                    ev = {"engine": "kani-cbmc", "unit": h.name, "kind": h.kind, "cfg": cfg, "status": r["status"],
                          "checks": r["checks"], "passed": r["passed"], "covers": r.get("covers", 0),
                          "functions_under_contract": h.funcs, "contract": h.contract, "wall_s": r["wall_s"], "kani_args": h.kani_args,
                          "solver_s": r.get("solver_s"), "stubs": r.get("stubs", [])}
                    if h.kind == "bounded":
                        bounded_obl += r["checks"]
                        ev["bounded_note"] = h.note
                    if r["status"] == "passed":
                        if h.kind != "bounded":
                            discharged += r["passed"]
                        else:
                            bounded_passed += r["passed"]
                        if len(samples) < 6:
                            samples.append({"engine": "kani", "harness": h.name, "contract": h.contract,
                                            "checks_discharged": r["passed"]})
                    elif r["status"] == "undecided":
                        discharged += 0
                        ev["reason"] = r.get("reason")
                        ev["output_tail"] = r.get("output_tail", "")[-1500:]
                        undecided.append((h.name, r.get("reason", "")))
                    else:
                        if h.kind != "bounded":
                            discharged += r["passed"]
                        unmatched = []
                        for fc in r["failed_checks"]:
                            desc = "%s [%s]" % (fc["description"], fc["where"])
                            k = match_known(pid, "kani", h.name, desc, known)
                            if k:
                                known_hits.append((k, h.name))
                            else:
                                unmatched.append(desc)
                        ev["failed_checks"] = r["failed_checks"][:10]
                        if unmatched:
                            log("[kani] %s failed: %s -- extracting counterexample" % (h.name, unmatched[:3]))
                            cex = kani_engine.counterexample(sc, cfg, h)
                            violations.append({"unit": h.name, "engine": "kani", "failed": unmatched, "cex": cex,
                                               "kind": h.kind, "contract": h.contract, "funcs": h.funcs})
                    units_ev.append(ev)
        finally:
            for scg in scratches:
                scg.__exit__(None, None, None)

    # ---------------------------------------------------------------- verdict
    lines = []
    seen = set()
    by_id = {}
    for k, unit in known_hits:
        by_id.setdefault(k.get("id"), (k, []))[1].append(unit)
    for fid, (k, units) in by_id.items():
        seen.add(fid)
        lines.append("KNOWN-FINDING: property=%s %s [%s; failed obligations: %s]" % (pid, k["what"], fid, ", ".join(sorted(set(units)))))
    # an open finding whose obligation did not run in this tier is still reported as a reminder (quick tier subset)
    rc = EXIT_OK
    replay_paths = []
    for v in violations:
        cex = v.get("cex") or {}
        reproduced = cex.get("native_replay") == "reproduced"
        payload = {"property": pid, "failed_obligation": v["unit"], "engine": v["engine"], "failed_checks": v["failed"],
                   "contract": v.get("contract"), "functions": v.get("funcs"), "counterexample": cex,
                   "verifier_output": v.get("verus_output"), "repo": repo_fingerprint(), "tier": tier,
                   "how_to_rerun": "bin/check %s --tier %s --only %s" % (pid, tier, v["unit"])}
        path = write_replay(pid, v["unit"], payload)
        replay_paths.append(path)
        suffix = "" if reproduced else " no-failing-input-found"
        lines.append("VIOLATION property=%s replay=%s%s" % (pid, path, suffix))
        rc = EXIT_VIOLATION
    if rc == EXIT_OK and undecided:
        rc = EXIT_UNDECIDED
        for u, why in undecided:
            lines.append("UNDECIDED property=%s obligation=%s reason=%s" % (pid, u, (why or "")[:300]))
    if obligations == 0 and rc == EXIT_OK:
        rc = EXIT_UNDECIDED
        lines.append("UNDECIDED property=%s reason=no obligations generated (vacuity guard)" % pid)

    level = meta.get("level", "proof")
    open_known = [k for k in known.get("open", []) if pid in k.get("properties", [k.get("property")])]
    coverage = {
        "obligations": obligations,
        "discharged": discharged,
        "checker_cmd": " ;; ".join(checker_cmds)[:4000] or "n/a",
        "trusted_base": COMMON_TRUSTED + meta.get("trusted_base", []),
        "explanation": meta.get("explanation", ""),
        "engines": sorted(engines_used),
        "functions_under_contract": sorted(functions),
        "bounded_stand_in_obligations": bounded_obl,
        "bounded_stand_in_passed": bounded_passed,
        "bounded_note": "checks of harnesses labelled kind=bounded (stated bound in their entry under units); not part of obligations/discharged",
        "solver_s": round(solver_s, 2),
        "units": units_ev,
        "samples": samples or [{"note": "no sample recorded"}],
        "undecided": [{"obligation": u, "reason": w} for u, w in undecided],
        "known_findings_open": [{"id": k.get("id"), "what": k["what"]} for k in open_known],
        "known_findings_hit_this_run": sorted({k.get("id") for k, _ in known_hits}),
        "injection": inject_summary,
        "escalated_harnesses": escalated,
        "exhaustive": False,
        "repo": repo_fingerprint(),
    }
    if level == "proof" and (discharged != obligations):
        # a proof-level file must have discharged == obligations; anything else is reported at level other
        level = "other"
        coverage["explanation"] = ("NOT all obligations discharged in this run (%d of %d; violations=%d undecided=%d "
                                   "known-findings=%d). " % (discharged, obligations, len(violations), len(undecided),
                                                             len(known_hits))) + coverage["explanation"]
    # measured list of what this run left unchecked (names, not counts)
    assumptions = list(meta.get("assumptions", []))
    a_repo, a_stand, a_ax, a_un = set(), set(), set(), set()
    ran_units = {x.get("unit") for x in units_ev if x.get("engine") == "verus-z3"}
    for x in units_ev:
        an = x.get("assumed_names") or {}
        a_repo.update("%s (in %s)" % (n, x.get("unit")) for n in an.get("repo_contracts_assumed_in_this_unit", []))
        a_stand.update(an.get("trusted_standin_fns", []))
        a_ax.update(an.get("axioms_and_assumed_specs", []))
        a_un.update(an.get("uninterpreted_spec_fns", []))
        for imp in an.get("contracts_imported_from_units", []):
            if imp not in ran_units:
                assumptions.append("verus: contracts imported from unit %s are used by %s but %s is not part of this property's run "
                                   "(it is discharged by the checks of the properties it is registered for)" % (imp, x.get("unit"), imp))
    if a_repo:
        assumptions.append("verus: contracts of /repo functions assumed, not proved, in this run's units (discharged by the Kani pairs named in DESIGN A.3): " + ", ".join(sorted(a_repo)))
    if a_stand:
        assumptions.append("verus: trusted stand-in functions (tinyvec / core / derive semantics, contract = documented behaviour and panics): " + ", ".join(sorted(a_stand)))
    if a_ax:
        assumptions.append("verus: axioms / assumed specifications: " + ", ".join(sorted(a_ax)))
    if a_un:
        assumptions.append("verus: uninterpreted specification functions (nothing is known about them beyond their contracts): " + ", ".join(sorted(a_un)))
    kstubs = set()
    for x in units_ev:
        if x.get("engine") == "kani-cbmc":
            for st in x.get("stubs") or []:
                kstubs.add(st if isinstance(st, str) else json.dumps(st, sort_keys=True))
    if kstubs:
        assumptions.append(("kani: functions replaced by stubs in at least one harness of this run (the stub's contract is what is "
                            "assumed of them there): " + "; ".join(sorted(kstubs)))[:4000])
    bounded_units = sorted(x["unit"] for x in units_ev if x.get("kind") == "bounded")
    if bounded_units:
        assumptions.append("bounded stand-ins in this run (not counted as proved): " + ", ".join(bounded_units))
    assumptions = sorted(set(assumptions))
    ev = {
        "property_id": pid, "tier": ("thorough" if tier == "extended" else tier), "seed": seed, "level": level, "coverage": coverage,
        "assumptions": assumptions, "wall_s": timer.s(), "violations": len(violations),
    }
    write_evidence(pid, ev)
    for l in lines:
        print(l)
    print("SUMMARY property=%s tier=%s obligations=%d discharged=%d violations=%d undecided=%d known=%d wall=%.0fs exit=%d" % (
        pid, tier, obligations, discharged, len(violations), len(undecided), len(seen), timer.s(), rc))
    return rc
