"""Kani engine: inject contracts/harnesses into a scratch copy of /repo, run cargo kani, parse results.

The scratch copy is /repo's current working tree plus *insert-only* additions:
  * contracts/kani/attrs.txt      -> `#[cfg_attr(kani, kani::requires/ensures/modifies(..))]` lines above anchored fns
  * contracts/kani/inject/src/**  -> text appended to the file of the same path (a `#[cfg(kani)] mod kani_verif {..}`),
                                     or a new file if /repo has none of that name
No existing line of /repo is changed or removed; this is checked with a diff after injection.
"""
import json
import os
import re
import shlex
import subprocess
import threading
import time

from common import VERIF, NCPU, OFFLINE_ENV, log, copy_repo

KANI_DIR = os.path.join(VERIF, "contracts", "kani")
INJECT_DIR = os.path.join(KANI_DIR, "inject")
ATTRS = os.path.join(KANI_DIR, "attrs.txt")

# Build configurations (DESIGN 2.4). env overrides .cargo/config.toml [env] (cargo does not force those).
CONFIGS = {
    "default": {"env": {}, "features": ["hbs_lms_verif"]},
    # capacity-reduced: only the LM-OTS chain capacity shrinks (265 -> 34); levels and heights stay at the default limits.
    # Used for functions whose text does not depend on MAX_NUM_WINTERNITZ_CHAINS-sized buffers (counter arithmetic, control flow).
    "w8": {"env": {"HBS_LMS_WINTERNITZ_PARAMETERS": "8, 8, 8, 8, 8, 8, 8, 8"}, "features": ["hbs_lms_verif"]},
    # two levels, W8 only: the smallest structures on which the signing control flow can be exercised with lists of 1 and 2 levels
    "L2w8": {"env": {"HBS_LMS_MAX_ALLOWED_HSS_LEVELS": "2", "HBS_LMS_TREE_HEIGHTS": "25, 25",
                     "HBS_LMS_WINTERNITZ_PARAMETERS": "8, 8"}, "features": ["hbs_lms_verif"]},
    "w8big": {"env": {"HBS_LMS_WINTERNITZ_PARAMETERS": "8, 8, 8, 8, 8, 8, 8, 8", "RUSTFLAGS": "--cfg kani_biglog"}, "features": ["hbs_lms_verif"]},
    "defaultbig": {"env": {"RUSTFLAGS": "--cfg kani_biglog"}, "features": ["hbs_lms_verif"]},
    "L3w8": {"env": {"HBS_LMS_MAX_ALLOWED_HSS_LEVELS": "3", "HBS_LMS_TREE_HEIGHTS": "25, 25, 25",
                     "HBS_LMS_WINTERNITZ_PARAMETERS": "8, 8, 8"}, "features": ["hbs_lms_verif"]},
    "fastverify": {"env": {"HBS_LMS_MAX_HASH_OPTIMIZATIONS": "4", "HBS_LMS_THREADS": "1"},
                   "features": ["hbs_lms_verif", "fast_verify"]},
    # the smallest build there is (one level, height <= 5, W8): buffers of ~1.3 kB; for control flow that does not depend on sizes
    "L1h5w8": {"env": {"HBS_LMS_MAX_ALLOWED_HSS_LEVELS": "1", "HBS_LMS_TREE_HEIGHTS": "5",
                       "HBS_LMS_WINTERNITZ_PARAMETERS": "8"}, "features": ["hbs_lms_verif"]},
    "L1": {"env": {"HBS_LMS_MAX_ALLOWED_HSS_LEVELS": "1", "HBS_LMS_TREE_HEIGHTS": "25",
                   "HBS_LMS_WINTERNITZ_PARAMETERS": "1"}, "features": ["hbs_lms_verif"]},
    "L2": {"env": {"HBS_LMS_MAX_ALLOWED_HSS_LEVELS": "2", "HBS_LMS_TREE_HEIGHTS": "25, 25",
                   "HBS_LMS_WINTERNITZ_PARAMETERS": "1, 1"}, "features": ["hbs_lms_verif"]},
    "L3": {"env": {"HBS_LMS_MAX_ALLOWED_HSS_LEVELS": "3", "HBS_LMS_TREE_HEIGHTS": "25, 25, 25",
                   "HBS_LMS_WINTERNITZ_PARAMETERS": "1, 1, 1"}, "features": ["hbs_lms_verif"]},
    "L2smallbig": {"env": {"HBS_LMS_MAX_ALLOWED_HSS_LEVELS": "2", "HBS_LMS_TREE_HEIGHTS": "10, 5",
                           "HBS_LMS_WINTERNITZ_PARAMETERS": "4, 8", "RUSTFLAGS": "--cfg kani_biglog"}, "features": ["hbs_lms_verif"]},
    "L2small": {"env": {"HBS_LMS_MAX_ALLOWED_HSS_LEVELS": "2", "HBS_LMS_TREE_HEIGHTS": "10, 5",
                        "HBS_LMS_WINTERNITZ_PARAMETERS": "4, 8"}, "features": ["hbs_lms_verif"]},
}


# CBMC processes of this code base peak at 3-9 GB each; 62 GB machine => at most 5 in parallel (an OOM-killed cbmc makes the
# kani driver abort and the whole group undecided)
MAX_JOBS = int(os.environ.get("VERIF_KANI_JOBS", "5"))


class Undecided(Exception):
    pass


# resident-set limit per cbmc process (watchdog): one run-away SAT instance must end as "undecided" for its own harness
# instead of taking the machine (and every other harness of the group) down with it
MEM_LIMIT_GB = int(os.environ.get("VERIF_KANI_MEM_GB", "18"))


def _cbmc_watchdog(stop):
    """Kill any cbmc process whose resident set exceeds MEM_LIMIT_GB. (An address-space rlimit on the whole process tree
    also hits kani-driver, which maps > 18 GB for harnesses with tens of thousands of checks and then aborts the batch.)"""
    lim_kb = MEM_LIMIT_GB * 1024 * 1024
    while not stop.wait(3.0):
        try:
            biggest = (0, None)
            for pid in os.listdir("/proc"):
                if not pid.isdigit():
                    continue
                try:
                    with open("/proc/%s/comm" % pid) as f:
                        comm = f.read().strip()
                        if comm not in ("cbmc", "kani-driver"):
                            continue     # (kani-driver keeps the solver's JSON output of a whole batch in memory: seen at 29 GB)
                    with open("/proc/%s/status" % pid) as f:
                        m = re.search(r"VmRSS:\s+(\d+) kB", f.read())
                    if m and int(m.group(1)) > lim_kb:
                        log("[kani] %s %s exceeds %d GB resident: killed (its harness / batch becomes undecided)" % (comm, pid, MEM_LIMIT_GB))
                        os.kill(int(pid), 9)
                    elif m and comm == "cbmc" and int(m.group(1)) > biggest[0]:
                        biggest = (int(m.group(1)), int(pid))
                except (OSError, ValueError):
                    continue
            # machine-wide guard (no swap here): below 4 GB of available memory the largest solver goes, before the kernel's
            # OOM killer picks an arbitrary process (a driver, a compiler) and a whole batch is lost
            with open("/proc/meminfo") as f:
                ma = re.search(r"MemAvailable:\s+(\d+) kB", f.read())
            if ma and int(ma.group(1)) < 4 * 1024 * 1024 and biggest[1]:
                log("[kani] %d MB available: largest cbmc %s (%d MB) killed (its harness becomes undecided)" % (int(ma.group(1)) // 1024, biggest[1], biggest[0] // 1024))
                try:
                    os.kill(biggest[1], 9)
                except OSError:
                    pass
        except OSError:
            pass


class Harness:
    def __init__(self, name, file, meta, line):
        self.name = name
        self.file = file          # path relative to inject dir, e.g. src/hss/mod.rs
        self.meta = meta
        self.line = line
        # props=Cxx,Cyy!,Czz : the first property owns the harness (runs in its quick tier if tier=quick); a property marked
        # with `!` also runs it in its quick tier; the others only in their thorough tier (the harness is then a member of
        # that property's composition, decided in the owner's check on every change)
        raw = [p for p in meta.get("props", "").split(",") if p]
        self.props = [p.rstrip("!") for p in raw]
        self.quick_props = [p.rstrip("!") for i, p in enumerate(raw) if i == 0 or p.endswith("!")]
        self.tier = meta.get("tier", "quick")
        self.kind = meta.get("kind", "proved")      # proved | bounded
        self.cfg = meta.get("cfg", "default")
        # per-harness CBMC budget. The declared value is about 2x the time measured on an idle machine; the floor keeps a check
        # that shares the machine with other checks (or with a busy CI host) from ending undecided on the unchanged tree
        self.declared_timeout = int(meta.get("timeout", "900"))
        if os.environ.get("VERIF_KANI_TIMEOUT_FLOOR", "1") != "0":       # (0: sweeps over seeded changes keep the declared budgets)
            self.timeout = max(self.declared_timeout, 1800 if meta.get("tier", "quick") == "quick" else 3600)
        else:
            self.timeout = self.declared_timeout
        self.funcs = [f for f in meta.get("funcs", "").split(";") if f]
        self.note = meta.get("note", "")
        self.contract = meta.get("contract", "")
        # optional extra cargo-kani flags for this harness (e.g. --no-memory-safety-checks), space separated
        # CBMC's pointer-validity checks (dereference of dead/out-of-bounds objects) are off by default: the crate and tinyvec
        # are #![forbid(unsafe_code)], Rust-level panics (bounds checks, overflow, unwrap, capacity) stay on as assertions.
        # They multiply the number of checks by ~5 and with it Kani's run time (A.1 of DESIGN). `kani_args=full` restores them.
        ka = meta.get("kani_args", "--no-memory-safety-checks --no-undefined-function-checks")
        self.kani_args = "" if ka == "full" else ka   # free text: which clause / contract this harness discharges

    @property
    def qualified(self):
        if self.file.startswith("tests/"):
            return self.name      # harness in an integration-test crate (cargo kani --tests): its own crate root
        rel = self.file[len("src/"):-3]  # strip src/ and .rs
        parts = rel.split("/")
        if parts[-1] in ("mod", "lib"):
            parts = parts[:-1]
        return "::".join(parts + ["kani_verif", self.name])


_META_RE = re.compile(r"^\s*//\s*@h\s+(.*)$")
_FN_RE = re.compile(r"^\s*(?:pub\s+)?fn\s+([A-Za-z0-9_]+)\s*\(")


def _parse_meta(s):
    meta = {}
    for tok in shlex.split(s):
        if "=" in tok:
            k, v = tok.split("=", 1)
            meta[k] = v
    return meta


def list_harnesses():
    out = []
    for root, _dirs, files in os.walk(INJECT_DIR):
        for fn in sorted(files):
            if not fn.endswith(".rs"):
                continue
            path = os.path.join(root, fn)
            rel = os.path.relpath(path, INJECT_DIR)
            pending = None
            with open(path) as f:
                for ln, line in enumerate(f, 1):
                    m = _META_RE.match(line)
                    if m:
                        meta = _parse_meta(m.group(1))
                        if "name" in meta:
                            out.append(Harness(meta["name"], rel, meta, ln))
                            pending = None
                        else:
                            pending = (meta, ln)
                        continue
                    if pending:
                        m2 = _FN_RE.match(line)
                        if m2:
                            out.append(Harness(m2.group(1), rel, pending[0], pending[1]))
                            pending = None
    names = [h.name for h in out]
    dup = {n for n in names if names.count(n) > 1}
    if dup:
        raise Undecided("duplicate harness names: %s" % sorted(dup))
    return out


def parse_attrs():
    """attrs.txt: blocks `@@ <file> @@ <anchor line>` followed by attribute lines."""
    blocks = []
    if not os.path.exists(ATTRS):
        return blocks
    cur = None
    with open(ATTRS) as f:
        for line in f:
            if line.startswith("@@"):
                _, file, anchor = line.split("@@", 2)
                cur = {"file": file.strip(), "anchor": anchor.strip(), "lines": []}
                blocks.append(cur)
            elif line.strip().startswith("#[") and cur is not None:
                cur["lines"].append(line.rstrip("\n"))
            elif line.strip() == "" or line.lstrip().startswith("//"):
                continue
            elif cur is not None:
                cur["lines"].append(line.rstrip("\n"))
    return blocks


def inject(scratch):
    """Returns a summary dict; raises Undecided on a lost anchor."""
    summary = {"attr_blocks": 0, "attr_lines": 0, "appended_files": [], "new_files": [], "inserted_lines": 0,
               "scan": {"kani::assume": 0, "kani::stub(": 0, "kani::stub_verified": 0, "kani::proof_for_contract": 0,
                        "kani::proof]": 0, "kani::cover!": 0}}
    # 1. attributes
    by_file = {}
    for b in parse_attrs():
        by_file.setdefault(b["file"], []).append(b)
    for file, blocks in by_file.items():
        path = os.path.join(scratch, file)
        if not os.path.exists(path):
            raise Undecided("lost anchor: file %s does not exist" % file)
        with open(path) as f:
            lines = f.read().split("\n")
        for b in blocks:
            idx = [i for i, l in enumerate(lines) if l.strip() == b["anchor"]]
            if len(idx) != 1:
                raise Undecided("lost anchor in %s: %r matches %d lines" % (file, b["anchor"], len(idx)))
            i = idx[0]
            indent = lines[i][: len(lines[i]) - len(lines[i].lstrip())]
            # attributes go above any attribute lines directly preceding the fn
            lines[i:i] = [indent + l.strip() for l in b["lines"]]
            summary["attr_blocks"] += 1
            summary["attr_lines"] += len(b["lines"])
        with open(path, "w") as f:
            f.write("\n".join(lines))
    # 2. appended modules / new files
    for root, _dirs, files in os.walk(INJECT_DIR):
        for fn in sorted(files):
            src = os.path.join(root, fn)
            rel = os.path.relpath(src, INJECT_DIR)
            dst = os.path.join(scratch, rel)
            with open(src) as f:
                text = f.read()
            for kw in summary["scan"]:
                summary["scan"][kw] += text.count(kw)
            if os.path.exists(dst):
                with open(dst, "a") as f:
                    f.write("\n" + text)
                summary["appended_files"].append(rel)
            else:
                os.makedirs(os.path.dirname(dst), exist_ok=True)
                with open(dst, "w") as f:
                    f.write(text)
                summary["new_files"].append(rel)
            summary["inserted_lines"] += text.count("\n") + 1
    return summary


def check_insert_only(scratch, repo):
    """diff -r: every hunk must be a pure addition on the scratch side."""
    p = subprocess.run(["diff", "-r", "-x", "target", "-x", ".git", "-x", "Cargo.lock", repo, scratch],
                       capture_output=True, text=True)
    removed = [l for l in p.stdout.splitlines() if l.startswith("< ")]
    changed = [l for l in p.stdout.splitlines() if re.match(r"^\d+(,\d+)?[cd]\d+", l)]
    return {"removed_or_changed_lines": len(removed) + len(changed),
            "added_lines": len([l for l in p.stdout.splitlines() if l.startswith("> ")])}


def _classify_check(chk):
    desc = chk.get("description", "")
    cat = chk.get("category", "")
    if desc.startswith("unwinding assertion") or cat == "unwind":
        return "unwind"
    if cat == "unsupported_construct" or "is not currently supported by Kani" in desc:
        return "unsupported"
    if cat == "cover":
        return "cover"
    return "property"


BATCH = int(os.environ.get("VERIF_KANI_BATCH", "8"))


def run_group(scratch, cfg_name, harnesses, jobs=None, extra_args=None):
    """Run all harnesses of one build configuration. cargo-kani keeps the output of every harness of an invocation in memory
    (observed: 20 GB for 29 harnesses), so a group is split into invocations of at most BATCH harnesses."""
    results, infos = {}, []
    # thorough-tier harnesses with a declared budget of 25 minutes or more write hundreds of MB of solver output each, which
    # kani-driver keeps in memory until the invocation ends (a batch of six of them took the driver past 18 GB and the whole
    # batch was lost): they go two per invocation. Quick-tier harnesses keep the plain batching.
    heavy = [h for h in harnesses if h.tier != "quick" and (h.declared_timeout >= 1500 or h.name == "c03_from_l2_pts")]
    light = [h for h in harnesses if h not in heavy]
    chunks = [light[k:k + BATCH] for k in range(0, len(light), BATCH)] + [heavy[k:k + 2] for k in range(0, len(heavy), 2)]
    for chunk in chunks:
        r, info = _run_batch(scratch, cfg_name, chunk, jobs, extra_args)
        results.update(r)
        infos.append(info)
    info = {"cmd": " ;; ".join(i["cmd"] for i in infos), "wall_s": round(sum(i["wall_s"] for i in infos), 1),
            "rc": max((i["rc"] for i in infos), key=abs) if infos else 0, "tools": infos[0].get("tools") if infos else None}
    return results, info


def _run_batch(scratch, cfg_name, harnesses, jobs=None, extra_args=None):
    """Run a few harnesses (same config) in one cargo-kani invocation. Returns dict name -> result."""
    cfg = CONFIGS[cfg_name]
    env = dict(os.environ)
    env.update(OFFLINE_ENV)
    env.update(cfg["env"])
    out_json = os.path.join(scratch, "kani-%s.json" % cfg_name)
    if os.path.exists(out_json):
        os.remove(out_json)
    tmo = max(h.timeout for h in harnesses)
    cmd = ["cargo", "kani", "-Z", "function-contracts", "-Z", "stubbing", "-Z", "unstable-options",
           "--output-format", "terse", "-j", str(jobs or min(MAX_JOBS, max(1, len(harnesses)))),
           "--export-json", out_json, "--harness-timeout", "%ds" % tmo, "--exact"]
    if cfg["features"]:
        cmd += ["--features", ",".join(cfg["features"])]
    for h in harnesses:
        cmd += ["--harness", h.qualified]
    if extra_args:
        cmd += extra_args
    t0 = time.time()
    log("[kani] cfg=%s harnesses=%d: %s" % (cfg_name, len(harnesses), " ".join(h.name for h in harnesses)))
    # overall budget: compile + waves of harnesses
    waves = (len(harnesses) + MAX_JOBS - 1) // MAX_JOBS
    overall = 600 + tmo * waves + 120
    stop = threading.Event()
    wd = threading.Thread(target=_cbmc_watchdog, args=(stop,), daemon=True)
    wd.start()
    try:
        p = subprocess.run(cmd, cwd=scratch, env=env, capture_output=True, text=True, timeout=overall)
        stdout, stderr, rc = p.stdout, p.stderr, p.returncode
    except subprocess.TimeoutExpired as e:
        stdout = (e.stdout or b"").decode("utf8", "replace") if isinstance(e.stdout, bytes) else (e.stdout or "")
        stderr = (e.stderr or b"").decode("utf8", "replace") if isinstance(e.stderr, bytes) else (e.stderr or "")
        rc = -9
    finally:
        stop.set()
    wall = round(time.time() - t0, 1)
    results = {}
    data = None
    if os.path.exists(out_json):
        try:
            with open(out_json) as f:
                data = json.load(f)
        except Exception as e:  # pragma: no cover
            log("[kani] cannot parse export json:", e)
    if data is None:
        tail = (stdout + "\n" + stderr)[-6000:]
        for h in harnesses:
            results[h.name] = {"status": "undecided", "reason": "kani produced no result file (build error, lost anchor or crash)",
                               "output_tail": tail, "checks": 0, "passed": 0, "failed_checks": [], "wall_s": wall}
        return results, {"cmd": " ".join(cmd), "wall_s": wall, "rc": rc, "tools": None}
    stats = {c["harness_id"]: c for c in data.get("cbmc", [])}
    stubs_seen = {}
    cur = None
    for line in stdout.splitlines():
        m = re.search(r"Checking harness (\S+?)\.\.\.", line)
        if m:
            cur = m.group(1)
        m = re.search(r"- Stub: (.*)$", line)
        if m and cur:
            stubs_seen.setdefault(cur, []).append(m.group(1).strip())
    by_id = {r["harness_id"]: r for r in data["verification_results"]["results"]}
    for h in harnesses:
        r = by_id.get(h.qualified)
        if r is None:
            results[h.name] = {"status": "undecided", "reason": "harness not executed by kani (not found / filtered)",
                               "checks": 0, "passed": 0, "failed_checks": [], "wall_s": 0,
                               "output_tail": (stdout + stderr)[-3000:]}
            continue
        checks = r.get("checks", [])
        failed, unwind_fail, unsupported, covers_unsat, undetermined = [], [], [], [], []
        passed = 0
        covers = 0
        for c in checks:
            k = _classify_check(c)
            st = c.get("status", "").upper()
            if k == "cover":
                covers += 1
                if st not in ("SATISFIED",):
                    covers_unsat.append(c)
                else:
                    passed += 1
                continue
            if st in ("SUCCESS", "UNREACHABLE"):
                passed += 1
            elif st == "FAILURE":
                if k == "unwind":
                    unwind_fail.append(c)
                elif k == "unsupported":
                    unsupported.append(c)
                else:
                    failed.append(c)
            else:
                undetermined.append(c)
        res = {
            "checks": len(checks), "passed": passed, "covers": covers,
            "failed_checks": [_fmt_check(c) for c in failed],
            "wall_s": round(r.get("duration_ms", 0) / 1000.0, 2),
            "solver_s": round((((stats.get(h.qualified) or {}).get("cbmc_stats") or {}).get("runtime_decision_procedure_s") or 0.0), 3),
            "stubs": stubs_seen.get(h.qualified, []),
        }
        kstatus = r.get("status", "")
        if failed:
            res["status"] = "failed"
        elif unwind_fail:
            res["status"] = "undecided"
            res["reason"] = "unwinding assertion failed (bound too small): %s" % _fmt_check(unwind_fail[0])["where"]
        elif unsupported:
            res["status"] = "undecided"
            res["reason"] = "unsupported construct reachable: %s" % _fmt_check(unsupported[0])["description"]
        elif kstatus != "Success":
            res["status"] = "undecided"
            res["reason"] = "kani status %s without a failed property (timeout / solver error / undetermined=%d)" % (
                kstatus, len(undetermined))
        elif covers_unsat:
            res["status"] = "undecided"
            res["reason"] = "vacuity guard: cover not satisfied: %s" % _fmt_check(covers_unsat[0])["description"]
        elif len(checks) == 0:
            res["status"] = "undecided"
            res["reason"] = "vacuity guard: zero checks"
        else:
            res["status"] = "passed"
        results[h.name] = res
    info = {"cmd": " ".join(cmd), "wall_s": wall, "rc": rc, "tools": data.get("tools")}
    return results, info


def _fmt_check(c):
    loc = c.get("location", {}) or {}
    return {"description": c.get("description", ""), "category": c.get("category", ""),
            "function": c.get("function", ""),
            "where": "%s:%s" % (loc.get("file", "?"), loc.get("line", "?"))}


def counterexample(scratch, cfg_name, h, timeout=None):
    """Re-run one failing harness with concrete playback; try native replay. Returns dict."""
    cfg = CONFIGS[cfg_name]
    env = dict(os.environ)
    env.update(OFFLINE_ENV)
    env.update(cfg["env"])
    base = ["cargo", "kani", "-Z", "function-contracts", "-Z", "stubbing", "-Z", "unstable-options",
            "-Z", "concrete-playback", "--harness-timeout", "%ds" % (timeout or h.timeout), "--exact",
            "--harness", h.qualified]
    if cfg["features"]:
        base += ["--features", ",".join(cfg["features"])]
    if h.kani_args:
        base += h.kani_args.split()
    out = {"playback_test": None, "native_replay": "not attempted", "inputs": None}
    try:
        # `print`, not `inplace`: most harnesses are instantiated through macro_rules!, and Kani's in-place insertion puts the
        # generated test into the macro body (one copy per instantiation => duplicate definitions, and no `Vec` in a no_std crate)
        p = subprocess.run(base + ["--concrete-playback=print"], cwd=scratch, env=env, capture_output=True,
                           text=True, timeout=(timeout or h.timeout) + 600)
    except subprocess.TimeoutExpired:
        out["native_replay"] = "counterexample generation timed out"
        return out
    txt = p.stdout
    # find failed checks text (regular output format)
    fails = re.findall(r"Failed Checks: (.*)\n\s*File: \"([^\"]*)\", line (\d+)", txt)
    out["failed_checks_text"] = ["%s (%s:%s)" % f for f in fails][:10]
    test_name = None
    m = re.search(r"(#\[test\]\s*\n\s*fn (kani_concrete_playback_%s_[0-9a-f_]+)\(\) \{.*?\n\s*\})\s*\n\s*```" % re.escape(h.name), txt, re.S)
    if m:
        test_name = m.group(2)
        out["playback_test"] = m.group(1)[:6000]
        vals = re.findall(r"// (.+)\n\s*vec!\[([0-9, ]*)\]", m.group(1))
        out["inputs"] = [{"value": v.strip(), "bytes": [int(x) for x in b.replace(" ", "").split(",") if x]} for v, b in vals][:200]
        # append the test as a child module of the injected kani_verif module of the harness' file
        src = os.path.join(scratch, h.file)
        try:
            with open(src) as f:
                code = f.read()
            k = code.rstrip().rfind("}")
            code = (code[:k] + "\n    #[cfg(test)]\n    mod kani_playback_%s {\n        extern crate std;\n        use std::{vec, vec::Vec};\n        use super::*;\n        %s\n    }\n" % (h.name, m.group(1))
                    + code[k:])
            with open(src, "w") as f:
                f.write(code)
        except Exception as e:  # pragma: no cover
            out["native_replay"] = "could not add the generated test: %s" % e
            return out
    if not test_name:
        if "VERIFICATION:- SUCCESSFUL" in txt:
            out["native_replay"] = "failure did not reproduce in single-harness rerun"
        else:
            out["native_replay"] = "kani produced no concrete test (contract clause or no trace)"
            out["kani_tail"] = txt[-3000:]
        return out
    try:
        pb = ["cargo", "kani", "playback", "-Z", "concrete-playback"]
        if cfg["features"]:
            pb += ["--features", ",".join(cfg["features"])]
        pb += ["--", test_name]
        p2 = subprocess.run(pb, cwd=scratch, env=env, capture_output=True, text=True, timeout=1200)
        o = p2.stdout + p2.stderr
        if re.search(r"test result: FAILED|panicked at", o):
            out["native_replay"] = "reproduced"
            m = re.search(r"panicked at ([^\n]*)\n([^\n]*)", o)
            if m:
                out["native_panic"] = (m.group(1) + " " + m.group(2)).strip()[:500]
        elif re.search(r"test result: ok", o):
            out["native_replay"] = "not reproduced natively (test passed)"
        else:
            out["native_replay"] = "playback could not be built/run"
            out["playback_tail"] = o[-3000:]
    except subprocess.TimeoutExpired:
        out["native_replay"] = "native playback timed out"
    return out


def prepare(scratch):
    copy_repo(scratch)
    summary = inject(scratch)
    from common import REPO
    summary["diff_vs_repo"] = check_insert_only(scratch, REPO)
    if summary["diff_vs_repo"]["removed_or_changed_lines"] != 0:
        raise Undecided("injection is not insert-only: %s" % summary["diff_vs_repo"])
    return summary
