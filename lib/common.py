"""Shared helpers for the /verif driver: paths, scratch copies, evidence writing."""
import json
import os
import shutil
import subprocess
import sys
import tempfile
import time

VERIF = os.path.dirname(os.path.dirname(os.path.abspath(__file__)))
REPO = os.environ.get("VERIF_REPO", "/repo")
# runs against a scratch copy (seeded changes) must not overwrite the evidence of /repo itself
EVIDENCE_DIR = os.environ.get("VERIF_EVIDENCE_DIR", os.path.join(VERIF, "evidence"))
REPLAY_DIR = os.environ.get("VERIF_REPLAY_DIR", os.path.join(VERIF, "replays"))
KNOWN_FINDINGS = os.path.join(VERIF, "known_findings.json")
NCPU = os.cpu_count() or 4

EXIT_OK = 0
EXIT_VIOLATION = 1
EXIT_UNDECIDED = 2

OFFLINE_ENV = {
    "CARGO_NET_OFFLINE": "true",
    "GOPROXY": "off",
    "PIP_NO_INDEX": "1",
}


def log(*a):
    print(*a, file=sys.stderr, flush=True)


def scratch_root():
    base = os.environ.get("VERIF_SCRATCH")
    if not base:
        base = "/var/tmp" if os.path.isdir("/var/tmp") else tempfile.gettempdir()
    return base


class Scratch:
    """A throw-away directory outside /repo and /verif, removed on exit."""

    def __init__(self, tag):
        self.path = tempfile.mkdtemp(prefix="hbsverif-%s-" % tag, dir=scratch_root())

    def __enter__(self):
        return self.path

    def __exit__(self, *exc):
        if os.environ.get("VERIF_KEEP"):
            log("VERIF_KEEP set, keeping", self.path)
        else:
            shutil.rmtree(self.path, ignore_errors=True)
        return False


def copy_repo(dst):
    """Copy /repo's current working tree (no target/, no .git) to dst."""
    os.makedirs(dst, exist_ok=True)
    subprocess.run(
        ["rsync", "-a", "--delete", "--exclude", "/target", "--exclude", "/.git", REPO + "/", dst + "/"],
        check=True,
    )
    lock = os.path.join(REPO, "Cargo.lock")
    if os.path.exists(lock):
        shutil.copy(lock, os.path.join(dst, "Cargo.lock"))


def repo_fingerprint():
    try:
        head = subprocess.run(["git", "-C", REPO, "rev-parse", "HEAD"], capture_output=True, text=True).stdout.strip()
        dirty = subprocess.run(["git", "-C", REPO, "status", "--porcelain"], capture_output=True, text=True).stdout
        return {"head": head, "dirty_files": [l[3:] for l in dirty.splitlines() if not l.endswith("Cargo.lock")][:20]}
    except Exception as e:  # pragma: no cover
        return {"error": str(e)}


def load_known_findings():
    if not os.path.exists(KNOWN_FINDINGS):
        return {"open": [], "fixed": []}
    with open(KNOWN_FINDINGS) as f:
        return json.load(f)


def write_evidence(pid, ev):
    os.makedirs(EVIDENCE_DIR, exist_ok=True)
    path = os.path.join(EVIDENCE_DIR, pid + ".json")
    tmp = path + ".tmp"
    with open(tmp, "w") as f:
        json.dump(ev, f, indent=1, sort_keys=False)
        f.write("\n")
    os.replace(tmp, path)
    return path


def write_replay(pid, name, payload):
    os.makedirs(REPLAY_DIR, exist_ok=True)
    safe = "".join(c if c.isalnum() or c in "-_." else "_" for c in name)
    path = os.path.join(REPLAY_DIR, "%s-%s.json" % (pid, safe))
    with open(path, "w") as f:
        json.dump(payload, f, indent=1)
        f.write("\n")
    return path


class Timer:
    def __init__(self):
        self.t0 = time.time()

    def s(self):
        return round(time.time() - self.t0, 2)
