#!/usr/bin/env python3
"""False-alarm test, full checks: apply a behaviour-preserving refactoring (benign/B*/patch.diff) to a scratch copy of /repo and
run the registered quick check of a property on it. Exit 1 / VIOLATION on such a copy is a false alarm.
usage: tools/run_benign_checks.py B10:C13 B06:C08 ...   (results appended to benign/CHECKS.json)"""
import json, os, shutil, subprocess, sys, tempfile, time
V = os.path.dirname(os.path.dirname(os.path.abspath(__file__)))
out_p = os.path.join(V, "benign", "CHECKS.json")
out = json.load(open(out_p)) if os.path.exists(out_p) else {}
for spec in sys.argv[1:]:
    b, pid = spec.split(":")
    wt = tempfile.mkdtemp(prefix="benignchk-%s-" % b, dir="/var/tmp")
    try:
        subprocess.run(["rsync", "-a", "--exclude", "/target", "--exclude", "/.git", "/repo/", wt + "/"], check=True)
        ap = subprocess.run(["patch", "-p1", "-s", "-d", wt, "-i", os.path.join(V, "benign", b, "patch.diff")], capture_output=True, text=True)
        if ap.returncode != 0:
            print(spec, "patch does not apply"); continue
        ev = os.path.join(wt, "_evidence"); os.makedirs(ev)
        env = dict(os.environ); env.update({"VERIF_REPO": wt, "VERIF_EVIDENCE_DIR": ev, "VERIF_REPLAY_DIR": ev})
        t0 = time.time()
        r = subprocess.run([os.path.join(V, "bin", "check"), pid, "--tier", "quick"], cwd=V, env=env, capture_output=True, text=True)
        lines = [l for l in r.stdout.splitlines() if l.startswith(("VIOLATION", "UNDECIDED", "KNOWN-FINDING", "SUMMARY"))]
        out[spec] = {"exit": r.returncode, "lines": lines[:10], "wall_s": round(time.time() - t0)}
        print(spec, "exit", r.returncode, lines[-1] if lines else "", flush=True)
        json.dump(out, open(out_p, "w"), indent=1)
    finally:
        shutil.rmtree(wt, ignore_errors=True)
