#!/usr/bin/env python3
"""seeded/RESULTS.md from the detection.json files (one row per seeded change: latest run of the registered quick check)."""
import json, os, re
V = os.path.dirname(os.path.dirname(os.path.abspath(__file__)))
rows = []
for d in sorted(os.listdir(os.path.join(V, "seeded"))):
    if not re.match(r"C\d\d-\d+$", d):
        continue
    m = json.load(open(os.path.join(V, "seeded", d, "meta.json")))
    p = os.path.join(V, "seeded", d, "detection.json")
    if not os.path.exists(p):
        rows.append((d, m["property"], "not run", "", "", m.get("summary", "")[:110])); continue
    det = json.load(open(p))
    exits = {k: v["exit"] for k, v in det["results"].items()}
    verdict = "DETECTED" if det["detected"] else ("undecided (exit 2)" if 2 in exits.values() else "MISSED (exit 0)")
    by = sorted({"%s:%s" % (f["engine"], f["obligation"]) for v in det["results"].values() for f in v["violations"]})
    cex = any(f.get("native_replay") == "reproduced" for v in det["results"].values() for f in v["violations"])
    und = []
    for v in det["results"].values():
        for l in v["lines"]:
            mm = re.match(r"UNDECIDED property=\S+ obligation=(\S+) reason=(.{0,70})", l)
            if mm:
                und.append("%s (%s)" % (mm.group(1), mm.group(2).strip()))
    rows.append((d, m["property"], verdict + (" + replayed input" if cex else ""), ", ".join(by)[:160] or "; ".join(und)[:160],
                 "%s @%s" % (det.get("tier"), det.get("verif_commit", "")[:7]), (m.get("summary") or "")[:110].replace("|", "/")))
with open(os.path.join(V, "seeded", "RESULTS.md"), "w") as f:
    f.write("# Seeded changes: verdict of the registered quick check of the seeded property (tools/run_seeded.py)\n\n")
    f.write("| seeded | property | verdict | failed obligations (engine:unit) / undecided reason | run | change |\n|---|---|---|---|---|---|\n")
    for r in rows:
        f.write("| %s | %s | %s | %s | %s | %s |\n" % r)
    n = len(rows); det = sum(1 for r in rows if r[2].startswith("DETECTED")); und = sum(1 for r in rows if r[2].startswith("undecided")); mis = sum(1 for r in rows if r[2].startswith("MISSED"))
    f.write("\n%d seeded changes: %d detected (exit 1), %d undecided (exit 2), %d missed (exit 0), %d not run.\n" % (n, det, und, mis, n - det - und - mis))
print(open(os.path.join(V, "seeded", "RESULTS.md")).read()[-200:])
