#!/usr/bin/env python3
"""Quick compile check of the injected Kani modules (no verification): tools/kcompile.py [cfg ...]"""
import os, subprocess, sys
sys.path.insert(0, os.path.join(os.path.dirname(os.path.abspath(__file__)), "..", "lib"))
import kani_engine
from common import Scratch, OFFLINE_ENV
cfgs = sys.argv[1:] or ["w8"]
with Scratch("kcompile") as sc:
    print(kani_engine.prepare(sc))
    for c in cfgs:
        cfg = kani_engine.CONFIGS[c]
        env = dict(os.environ); env.update(OFFLINE_ENV); env.update(cfg["env"])
        cmd = ["cargo", "kani", "-Z", "function-contracts", "-Z", "stubbing", "-Z", "unstable-options", "--no-codegen"]
        if cfg["features"]:
            cmd += ["--features", ",".join(cfg["features"])]
        p = subprocess.run(cmd, cwd=sc, env=env, capture_output=True, text=True)
        out = p.stdout + p.stderr
        import re
        errs = re.findall(r"^(error(?:\[E\d+\])?: .*?)(?=^(?:error|warning)|\Z)", out, re.S | re.M)
        print("== cfg %s rc=%d errors=%d" % (c, p.returncode, len(errs)))
        for e in errs[:12]:
            print(e[:1200])
