#!/usr/bin/env python3
"""Measure every Kani harness once (all tiers) on /repo's working tree: status, wall, checks. Not a check: a tuning aid.
usage: tools/measure.py [--jobs N] [--timeout S] [--cfg a,b] [--only h1,h2] [--out file.json]"""
import argparse, json, os, sys, time
V = os.path.dirname(os.path.dirname(os.path.abspath(__file__)))
sys.path.insert(0, os.path.join(V, "lib"))
import kani_engine
from common import Scratch

ap = argparse.ArgumentParser()
ap.add_argument("--jobs", type=int, default=8)
ap.add_argument("--timeout", type=int, default=900)
ap.add_argument("--cfg", default=None)
ap.add_argument("--only", default=None)
ap.add_argument("--tier", default=None)
ap.add_argument("--out", default="/var/tmp/measure.json")
a = ap.parse_args()
hs = kani_engine.list_harnesses()
if a.only:
    only = set(a.only.split(","))
    hs = [h for h in hs if h.name in only]
if a.tier:
    hs = [h for h in hs if h.tier == a.tier]
if a.cfg:
    hs = [h for h in hs if h.cfg in a.cfg.split(",")]
for h in hs:
    h.timeout = a.timeout
kani_engine.MAX_JOBS = a.jobs
groups = {}
for h in hs:
    groups.setdefault((h.cfg, h.kani_args), []).append(h)
out = {}
if os.path.exists(a.out):
    out = json.load(open(a.out))
with Scratch("measure") as sc:
    kani_engine.prepare(sc)
    for (cfg, kargs), g in sorted(groups.items(), key=lambda kv: len(kv[1])):
        t0 = time.time()
        res, info = kani_engine.run_group(sc, cfg, g, jobs=a.jobs, extra_args=kargs.split() if kargs else None)
        for h in g:
            r = res[h.name]
            out[h.name] = {"cfg": cfg, "tier": h.tier, "props": h.props, "quick_props": h.quick_props, "status": r["status"],
                           "wall_s": r["wall_s"], "checks": r["checks"], "reason": r.get("reason", ""),
                           "failed": [c["description"] + " @" + c["where"] for c in r.get("failed_checks", [])][:5]}
            print("%-34s %-10s %-9s %8.1fs checks=%d %s" % (h.name, cfg, r["status"], r["wall_s"], r["checks"], r.get("reason", "")[:100]), flush=True)
        print("## group %s done in %.0fs (rc=%s)" % (cfg, time.time() - t0, info.get("rc")), flush=True)
        json.dump(out, open(a.out, "w"), indent=1)
