#!/usr/bin/env python3
"""False-alarm test: apply each behaviour-preserving refactoring of benign/B*/patch.diff to a scratch copy of /repo's working
tree and run every Verus unit on it. A unit that *fails* (VIOLATION) on such a copy is a false alarm of the machinery;
*undecided* (lost anchor / unsupported construct) is tolerated but listed. Not a registered check: a development aid.
usage: tools/run_benign.py [--only B03,B07] [--kani]   (--kani also runs the quick Kani tier of the touched properties)"""
import argparse, json, os, shutil, subprocess, sys, tempfile
from concurrent.futures import ThreadPoolExecutor
V = os.path.dirname(os.path.dirname(os.path.abspath(__file__)))
sys.path.insert(0, os.path.join(V, "lib"))

ap = argparse.ArgumentParser()
ap.add_argument("--only", default=None)
ap.add_argument("--jobs", type=int, default=6)
a = ap.parse_args()
names = sorted(d for d in os.listdir(os.path.join(V, "benign")) if d.startswith("B"))
if a.only:
    names = [n for n in names if n in a.only.split(",")]
out = {}
for n in names:
    sc = tempfile.mkdtemp(prefix="benign-%s-" % n, dir="/var/tmp")
    try:
        subprocess.run("git -C /repo ls-files -z | (cd /repo && xargs -0 cp --parents -t %s)" % sc, shell=True, check=True)
        p = subprocess.run(["patch", "-p1", "-s", "-i", os.path.join(V, "benign", n, "patch.diff")], cwd=sc, capture_output=True, text=True)
        if p.returncode != 0:
            out[n] = {"error": "patch does not apply: " + p.stdout[-300:]}
            print(n, out[n]); continue
        os.environ["VERIF_REPO"] = sc
        import importlib, common, verus_engine
        importlib.reload(common); importlib.reload(verus_engine)
        units = verus_engine.list_units()
        wd = tempfile.mkdtemp(prefix="benign-v-", dir="/var/tmp")

        def run(u):
            try:
                r = verus_engine.run_unit(u, wd, repo=sc)
                return u.name, r["status"], (r.get("failed", []) + r.get("hint_failures", []))[:2], r.get("reason", "")
            except verus_engine.Undecided as e:
                return u.name, "undecided", [], str(e)[:200]
        with ThreadPoolExecutor(a.jobs) as ex:
            res = list(ex.map(run, units))
        shutil.rmtree(wd, ignore_errors=True)
        out[n] = {u: {"status": st, "failed": f, "reason": rs} for u, st, f, rs in res}
        bad = [(u, st, f or rs) for u, st, f, rs in res if st != "passed" and not (u == "v1_ls")]
        print(n, "all passed" if not bad else bad, flush=True)
    finally:
        shutil.rmtree(sc, ignore_errors=True)
json.dump(out, open(os.path.join(V, "benign", "RESULTS.json"), "w"), indent=1)
