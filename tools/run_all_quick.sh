#!/bin/sh
# run every registered quick check once, sequentially (development aid); logs under /var/tmp/ql
mkdir -p /var/tmp/ql
cd /verif
for p in C12 C06 C02 C16 C13 C05 C03 C10 C08 C09 C11 C14 C07 C01 C04 C15; do
  /usr/bin/time -f "$p wall=%e rc=%x" bin/check $p --tier quick > /var/tmp/ql/$p.log 2>&1
  tail -n 2 /var/tmp/ql/$p.log | cut -c1-300
done
