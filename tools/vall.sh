#!/bin/sh
# development aid: every Verus unit on /repo's working tree (or VERIF_REPO), 4 at a time
cd "$(dirname "$0")/.."
ls contracts/verus/*.vspec | sed 's#.*/##; s#\.vspec##' | xargs -P 4 -I{} sh -c 'echo "{}: $(python3 tools/vrun.py {} 2>&1 | head -1 | cut -c1-250)"'
