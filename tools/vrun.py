#!/usr/bin/env python3
"""Run one Verus unit on /repo's working tree and print verus' messages (development aid). usage: tools/vrun.py <unit> [-v]"""
import os, sys, tempfile, shutil, json
V = os.path.dirname(os.path.dirname(os.path.abspath(__file__)))
sys.path.insert(0, os.path.join(V, "lib"))
import verus_engine
name = sys.argv[1]
u = [x for x in verus_engine.list_units() if x.name == name][0]
d = tempfile.mkdtemp(dir="/var/tmp")
try:
    try:
        r = verus_engine.run_unit(u, d)
    except verus_engine.Undecided as e:
        print("UNDECIDED", e); sys.exit(2)
    print(r["status"], "obligations", r["obligations"], "discharged", r["discharged"], "wall", r["wall_s"], r.get("reason", ""))
    for f in r.get("failed", []) + r.get("hint_failures", []):
        print("  FAIL", f)
    if "-v" in sys.argv:
        print(r["output_tail"])
    print("rewrites", r["rewrites"]); print("assumed", r["assumed"]); print("canaries", r["canaries"])
finally:
    shutil.rmtree(d, ignore_errors=True)
