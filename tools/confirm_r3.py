#!/usr/bin/env python3
"""Confirm round-3 sub-agent mutations: /tmp/wt-<PID>-r3/out/{patch.diff,demo.rs,meta.json} -> /verif/seeded/<PID>-<k>/
  (1) clean tree: demo passes; (2) patched: full suite passes and demo fails. usage: confirm_r3.py PID[:k] ..."""
import json, os, shutil, subprocess, sys, re
REPO = "/repo"
def sh(cmd, cwd, timeout=5400):
    e = dict(os.environ); e["CARGO_NET_OFFLINE"] = "true"
    p = subprocess.run(cmd, cwd=cwd, shell=True, capture_output=True, text=True, env=e, timeout=timeout)
    return p.returncode, p.stdout + p.stderr
def main():
    wt = "/tmp/mutcheck-%d" % os.getpid()
    subprocess.run(["git", "-C", REPO, "worktree", "add", "--detach", wt, "HEAD"], check=True, capture_output=True)
    shutil.copy(os.path.join(REPO, "Cargo.lock"), wt)
    try:
        for arg in sys.argv[1:]:
            pid, _, k = arg.partition(":")
            k = k or "4"
            out = "/tmp/wt-%s-r3/out" % pid
            meta = json.load(open(os.path.join(out, "meta.json")))
            name = "demo_%s_r3" % pid.lower()
            sh("git checkout -- . && git clean -fdq -e target -e Cargo.lock", wt)
            os.makedirs(os.path.join(wt, "tests"), exist_ok=True)
            demo_path = os.path.join(wt, "tests", name + ".rs")
            shutil.copy(os.path.join(out, "demo.rs"), demo_path)
            cmd = meta.get("demo_cmd", "cargo test --offline --test %s" % name)
            cmd = re.sub(r"cp \S+ \S+\s*&&\s*", "", cmd)
            cmd = re.split(r"\s{2,}\(", cmd)[0].strip()
            if "--offline" not in cmd:
                cmd = cmd.replace("cargo test", "cargo test --offline")
            rc_clean, o1 = sh(cmd, wt)
            rc_apply, oa = sh("git apply %s" % os.path.join(out, "patch.diff"), wt)
            if rc_apply != 0:
                print(pid, "patch does not apply on current HEAD:", oa[-300:], flush=True)
                continue
            os.rename(demo_path, "/tmp/mutcheck_demo_%d.rs" % os.getpid())
            rc_suite, o2 = sh("cargo test --workspace --no-fail-fast --offline", wt)
            os.rename("/tmp/mutcheck_demo_%d.rs" % os.getpid(), demo_path)
            rc_demo, o3 = sh(cmd, wt)
            ok = rc_clean == 0 and rc_suite == 0 and rc_demo != 0
            print(pid, k, "confirmed" if ok else "NOT confirmed", rc_clean, rc_suite, rc_demo, cmd, flush=True)
            if not ok:
                print(o1[-400:] if rc_clean else "", o2[-400:] if rc_suite else "", flush=True)
                continue
            d = "/verif/seeded/%s-%s" % (pid, k)
            os.makedirs(d, exist_ok=True)
            shutil.copy(os.path.join(out, "patch.diff"), os.path.join(d, "patch.diff"))
            shutil.copy(os.path.join(out, "demo.rs"), os.path.join(d, "demo.rs"))
            m = {"property": pid, "summary": meta.get("summary"), "needs_to_manifest": meta.get("needs_to_manifest"),
                 "files_changed": meta.get("files_changed"), "demo_cmd": "cp demo.rs tests/%s.rs && %s" % (name, cmd),
                 "what_i_ran": ["clean tree: demo passes (rc 0)", "patched: `cargo test --workspace --no-fail-fast --offline` passes (rc 0)",
                                 "patched: demo fails (rc %d): %s" % (rc_demo, (re.findall(r"panicked at[^\n]*\n[^\n]*", o3) or [""])[0][:300])],
                 "base_commit": subprocess.run(["git", "-C", REPO, "rev-parse", "HEAD"], capture_output=True, text=True).stdout.strip(),
                 "origin": "independent sub-agent (round 3) given only the property text and a scratch worktree",
                 "agent_notes": {k2: v for k2, v in meta.items() if k2 not in ("property", "summary", "needs_to_manifest", "files_changed", "demo_cmd", "what_i_ran")}}
            json.dump(m, open(os.path.join(d, "meta.json"), "w"), indent=1)
    finally:
        subprocess.run(["git", "-C", REPO, "worktree", "remove", "--force", wt], capture_output=True)
        shutil.rmtree(wt, ignore_errors=True)
if __name__ == "__main__":
    main()
