#!/usr/bin/env python3
"""Development aid: run every Verus unit against every seeded change (scratch copy of /repo), print which units flag it."""
import json, os, re, shutil, subprocess, sys, tempfile
V = os.path.dirname(os.path.dirname(os.path.abspath(__file__)))
sys.path.insert(0, os.path.join(V, "lib"))
ids = sys.argv[1:] or sorted(d for d in os.listdir(os.path.join(V, "seeded")) if re.match(r"C\d\d-\d+$", d))
import verus_engine
units = verus_engine.list_units()
for sid in ids:
    d = os.path.join(V, "seeded", sid)
    wt = tempfile.mkdtemp(prefix="sv-", dir="/var/tmp")
    subprocess.run(["rsync", "-a", "--exclude", "/target", "--exclude", "/.git", "/repo/", wt + "/"], check=True)
    ap = subprocess.run(["patch", "-p1", "-s", "-d", wt, "-i", os.path.join(d, "patch.diff")], capture_output=True, text=True)
    if ap.returncode != 0:
        print(sid, "PATCH FAILED", ap.stdout[-200:]); shutil.rmtree(wt); continue
    changed = subprocess.run(["diff", "-rq", "/repo/src", wt + "/src"], capture_output=True, text=True).stdout
    files = re.findall(r"Files /repo/(\S+)", changed)
    res = []
    for u in units:
        # only units that extract from a changed file
        if not any(it["file"] in files for it in u.items):
            continue
        sc = tempfile.mkdtemp(dir="/var/tmp")
        try:
            r = verus_engine.run_unit(u, sc, repo=wt)
            st = r["status"]
            if st != "passed":
                res.append("%s:%s" % (u.name, st))
        except verus_engine.Undecided as e:
            res.append("%s:UNDECIDED(%s)" % (u.name, str(e)[:60]))
        shutil.rmtree(sc, ignore_errors=True)
    print(sid, files, "->", res or "no verus unit flags it", flush=True)
    shutil.rmtree(wt, ignore_errors=True)
