#!/usr/bin/env python3
"""Run the registered checks against every confirmed seeded mutation (on a scratch worktree of /repo, never in /repo itself).
usage: tools/run_seeded.py [--tier quick] [ID ...]       results -> seeded/<ID>/detection.json and seeded/RESULTS.md"""
import json, os, re, shutil, subprocess, sys, time
V = os.path.dirname(os.path.dirname(os.path.abspath(__file__)))
OUT = os.environ.get("SEEDED_OUT", os.path.join(V, "seeded"))
def main():
    args = [a for a in sys.argv[1:] if not a.startswith("--")]
    tier = "quick"
    if "--tier" in sys.argv:
        tier = sys.argv[sys.argv.index("--tier") + 1]
        args = [a for a in args if a != tier]
    ids = args or sorted(d for d in os.listdir(os.path.join(V, "seeded")) if re.match(r"C\d\d-\d+$", d))
    wt = "/tmp/seedwt-%d" % os.getpid()
    rows = []
    for sid in ids:
        d = os.path.join(V, "seeded", sid)
        meta = json.load(open(os.path.join(d, "meta.json")))
        pid = meta["property"]
        subprocess.run(["git", "-C", "/repo", "worktree", "remove", "--force", wt], capture_output=True)
        subprocess.run(["git", "-C", "/repo", "worktree", "add", "--detach", wt, "HEAD"], check=True, capture_output=True)
        shutil.copy("/repo/Cargo.lock", wt)
        ap = subprocess.run(["git", "-C", wt, "apply", os.path.join(d, "patch.diff")], capture_output=True, text=True)
        if ap.returncode != 0:
            rows.append((sid, pid, "patch does not apply", "", 0))
            continue
        env = dict(os.environ); env["VERIF_REPO"] = wt
        t0 = time.time()
        props = [pid] + [p for p in meta.get("also_check", [])]
        res = {}
        for p in props:
            r = subprocess.run([os.path.join(V, "bin", "check"), p, "--tier", tier], cwd=V, env=env, capture_output=True, text=True)
            lines = [l for l in r.stdout.splitlines() if l.startswith(("VIOLATION", "UNDECIDED", "KNOWN-FINDING", "SUMMARY"))]
            res[p] = {"exit": r.returncode, "lines": lines[:12]}
            # keep the replay files of this run
            for l in lines:
                m = re.search(r"replay=(\S+)", l)
                if m and os.path.exists(m.group(1)):
                    os.makedirs(os.path.join(OUT, sid), exist_ok=True)
                    shutil.copy(m.group(1), os.path.join(OUT, sid, "replay-" + os.path.basename(m.group(1))))
        wall = round(time.time() - t0)
        det = {"seeded": sid, "tier": tier, "results": res, "wall_s": wall,
               "detected": any(v["exit"] == 1 for v in res.values()),
               "verif_commit": subprocess.run(["git", "-C", V, "rev-parse", "HEAD"], capture_output=True, text=True).stdout.strip()}
        os.makedirs(os.path.join(OUT, sid), exist_ok=True)
        json.dump(det, open(os.path.join(OUT, sid, "detection.json"), "w"), indent=1)
        verdict = "DETECTED" if det["detected"] else ("undecided" if any(v["exit"] == 2 for v in res.values()) else "MISSED")
        first = next((l for v in res.values() for l in v["lines"] if l.startswith("VIOLATION")), "")
        rows.append((sid, pid, verdict, first[:160], wall))
        print(sid, verdict, first[:200], flush=True)
        subprocess.run(["git", "-C", "/repo", "worktree", "remove", "--force", wt], capture_output=True)
        shutil.rmtree(wt, ignore_errors=True)
    with open(os.path.join(OUT, "RESULTS.md"), "a") as f:
        f.write("\n## run %s tier=%s\n\n| seeded | property | verdict | first violation line | s |\n|---|---|---|---|---|\n" % (time.strftime("%F %T"), tier))
        for r in rows:
            f.write("| %s | %s | %s | %s | %d |\n" % r)
if __name__ == "__main__":
    main()
