#!/usr/bin/env python3
"""Run the registered checks against confirmed seeded changes, each on its own scratch copy of /repo's working tree
(never in /repo itself; evidence/replays of these runs go to the scratch area, not to /verif/evidence).
usage: tools/run_seeded.py [--tier quick|thorough] [--jobs N] [ID ...]   results -> seeded/<ID>/detection.json, seeded/RESULTS.md"""
import json, os, re, shutil, subprocess, sys, tempfile, time
from concurrent.futures import ThreadPoolExecutor
V = os.path.dirname(os.path.dirname(os.path.abspath(__file__)))


def run_one(sid, tier):
    d = os.path.join(V, "seeded", sid)
    meta = json.load(open(os.path.join(d, "meta.json")))
    pid = meta["property"]
    wt = tempfile.mkdtemp(prefix="seed-%s-" % sid, dir="/var/tmp")
    try:
        subprocess.run(["rsync", "-a", "--exclude", "/target", "--exclude", "/.git", "/repo/", wt + "/"], check=True)
        ap = subprocess.run(["patch", "-p1", "-s", "-d", wt, "-i", os.path.join(d, "patch.diff")], capture_output=True, text=True)
        if ap.returncode != 0:
            return (sid, pid, "patch does not apply", ap.stdout[-200:], 0)
        ev = os.path.join(wt, "_evidence")
        os.makedirs(ev)
        env = dict(os.environ)
        env.update({"VERIF_REPO": wt, "VERIF_EVIDENCE_DIR": ev, "VERIF_REPLAY_DIR": ev})
        t0 = time.time()
        res = {}
        for p in [pid] + list(meta.get("also_check", [])):
            r = subprocess.run([os.path.join(V, "bin", "check"), p, "--tier", tier], cwd=V, env=env, capture_output=True, text=True)
            lines = [l for l in r.stdout.splitlines() if l.startswith(("VIOLATION", "UNDECIDED", "KNOWN-FINDING", "SUMMARY"))]
            failed = []
            for l in lines:
                m = re.search(r"replay=(\S+)", l)
                if m and os.path.exists(m.group(1)):
                    try:
                        rp = json.load(open(m.group(1)))
                        failed.append({"obligation": rp.get("failed_obligation"), "engine": rp.get("engine"),
                                       "failed_checks": rp.get("failed_checks", [])[:3],
                                       "native_replay": (rp.get("counterexample") or {}).get("native_replay")})
                    except Exception:
                        pass
            res[p] = {"exit": r.returncode, "lines": lines[:12], "violations": failed[:6]}
        wall = round(time.time() - t0)
        det = {"seeded": sid, "tier": tier, "results": res, "wall_s": wall,
               "detected": any(v["exit"] == 1 for v in res.values()),
               "verif_commit": subprocess.run(["git", "-C", V, "rev-parse", "HEAD"], capture_output=True, text=True).stdout.strip()}
        json.dump(det, open(os.path.join(d, "detection.json"), "w"), indent=1)
        verdict = "DETECTED" if det["detected"] else ("undecided" if any(v["exit"] == 2 for v in res.values()) else "MISSED")
        by = sorted({"%s:%s" % (f["engine"], f["obligation"]) for v in res.values() for f in v["violations"]})
        return (sid, pid, verdict, ", ".join(by)[:200], wall)
    finally:
        shutil.rmtree(wt, ignore_errors=True)


def main():
    args = sys.argv[1:]
    tier, jobs, ids = "quick", 1, []
    i = 0
    while i < len(args):
        if args[i] == "--tier":
            tier = args[i + 1]; i += 2
        elif args[i] == "--jobs":
            jobs = int(args[i + 1]); i += 2
        else:
            ids.append(args[i]); i += 1
    ids = ids or sorted(d for d in os.listdir(os.path.join(V, "seeded")) if re.match(r"C\d\d-\d+$", d))
    rows = []
    with ThreadPoolExecutor(max_workers=jobs) as ex:
        for row in ex.map(lambda s: run_one(s, tier), ids):
            rows.append(row)
            print(*row, flush=True)
    with open(os.path.join(V, "seeded", "RESULTS.md"), "a") as f:
        f.write("\n## run %s tier=%s (verif %s)\n\n| seeded | property | verdict | failed obligations (engine:unit) | s |\n|---|---|---|---|---|\n" % (
            time.strftime("%F %T"), tier, subprocess.run(["git", "-C", V, "rev-parse", "--short", "HEAD"], capture_output=True, text=True).stdout.strip()))
        for r in rows:
            f.write("| %s | %s | %s | %s | %d |\n" % r)


if __name__ == "__main__":
    main()
