#!/usr/bin/env python3
"""Replace the block between the SEEDED markers of DESIGN.md by a compact table made from seeded/*/detection.json."""
import json, os, re
V = os.path.dirname(os.path.dirname(os.path.abspath(__file__)))
rows, n = [], {"DETECTED": 0, "undecided": 0, "MISSED": 0, "not run": 0}
for d in sorted(os.listdir(os.path.join(V, "seeded"))):
    if not re.match(r"C\d\d-\d+$", d):
        continue
    p = os.path.join(V, "seeded", d, "detection.json")
    m = json.load(open(os.path.join(V, "seeded", d, "meta.json")))
    what = re.sub(r"\s+", " ", (m.get("summary") or ""))[:95].replace("|", "/")
    if not os.path.exists(p):
        rows.append((d, "not run", "", what)); n["not run"] += 1; continue
    det = json.load(open(p))
    exits = [v["exit"] for v in det["results"].values()]
    by = sorted({"%s:%s" % (f["engine"], f["obligation"]) for v in det["results"].values() for f in v["violations"]})
    rep = sorted({f["obligation"] for v in det["results"].values() for f in v["violations"] if f.get("native_replay") == "reproduced"})
    if det["detected"]:
        v = "exit 1" + (" (+ input replayed natively: %s)" % ", ".join(rep) if rep else ""); n["DETECTED"] += 1
    elif 2 in exits:
        v = "exit 2 (undecided)"; n["undecided"] += 1
    else:
        v = "**exit 0 (missed)**"; n["MISSED"] += 1
    rows.append((d, v, ", ".join(by)[:140], what))
txt = "| seeded | quick check of its property | failed obligations (engine:unit) | the change (first words of its meta.json) |\n|---|---|---|---|\n"
txt += "".join("| %s | %s | %s | %s |\n" % r for r in rows)
txt += "\n%d changes: **%d reported as VIOLATION (exit 1)**, %d undecided (exit 2), %d missed (exit 0)%s. " % (
    len(rows), n["DETECTED"], n["undecided"], n["MISSED"], (", %d not run" % n["not run"]) if n["not run"] else "")
txt += "Verus is the (or a) reporting engine for %d of them, Kani for %d." % (
    sum(1 for r in rows if "verus:" in r[2]), sum(1 for r in rows if "kani:" in r[2]))
p = os.path.join(V, "DESIGN.md")
s = open(p).read()
if "@@SEEDED_SUMMARY@@" in s:
    s = s.replace("@@SEEDED_SUMMARY@@", "<!-- seeded-summary-begin -->\n" + txt + "\n<!-- seeded-summary-end -->")
else:
    s = re.sub(r"<!-- seeded-summary-begin -->.*?<!-- seeded-summary-end -->", lambda _m: "<!-- seeded-summary-begin -->\n" + txt + "\n<!-- seeded-summary-end -->", s, flags=re.S)
open(p, "w").write(s)
print(txt[-300:])
