#!/usr/bin/env python3
"""Confirm sub-agent mutations: for /tmp/mut/<PID>/_out/{patch_i.diff,demo_i.rs,meta_i.json}
  (1) clean tree: demo passes; (2) patched: full suite passes and demo fails.
Keeps confirmed ones as /verif/seeded/<PID>-<i>/{patch.diff,demo.rs,meta.json}. Scratch worktree removed afterwards."""
import json, os, shutil, subprocess, sys, re
REPO = "/repo"
def sh(cmd, cwd, env=None, timeout=3600):
    e = dict(os.environ); e.update(env or {}); e["CARGO_NET_OFFLINE"] = "true"
    p = subprocess.run(cmd, cwd=cwd, shell=True, capture_output=True, text=True, env=e, timeout=timeout)
    return p.returncode, p.stdout + p.stderr
def main():
    pids = sys.argv[1:] or sorted(d for d in os.listdir("/tmp/mut") if re.match(r"C\d\d$", d))
    wt = "/tmp/mutcheck"
    subprocess.run(["git", "-C", REPO, "worktree", "remove", "--force", wt], capture_output=True)
    subprocess.run(["git", "-C", REPO, "worktree", "add", "--detach", wt, "HEAD"], check=True, capture_output=True)
    shutil.copy(os.path.join(REPO, "Cargo.lock"), wt)
    results = {}
    try:
        for pid in pids:
            out = "/tmp/mut/%s/_out" % pid
            for i in (1, 2):
                patch = os.path.join(out, "patch_%d.diff" % i)
                meta_p = os.path.join(out, "meta_%d.json" % i)
                if not os.path.exists(patch):
                    continue
                meta = json.load(open(meta_p)) if os.path.exists(meta_p) else {}
                demo_rs = os.path.join(out, "demo_%d.rs" % i)
                demo_diff = os.path.join(out, "demo_%d.diff" % i)
                name = "demo_%s_%d" % (pid.lower(), i)
                sh("git checkout -- . && git clean -fdq -e target -e Cargo.lock", wt)
                if os.path.exists(demo_rs):
                    shutil.copy(demo_rs, os.path.join(wt, "tests", name + ".rs"))
                elif os.path.exists(demo_diff):
                    sh("git apply %s" % demo_diff, wt)
                cmd = meta.get("demo_cmd", "cargo test --offline --test %s" % name)
                cmd = re.sub(r"cp _out/\S+ \S+\s*&&\s*", "", cmd)
                cmd = cmd.replace("/tmp/mut/%s" % pid, wt)
                if "--offline" not in cmd:
                    cmd = cmd.replace("cargo test", "cargo test --offline")
                rc_clean, o1 = sh(cmd, wt)
                rc_apply, oa = sh("git apply %s" % patch, wt)
                if rc_apply != 0:
                    results[(pid, i)] = {"confirmed": False, "why": "patch does not apply on current HEAD: " + oa[-300:]}
                    print(pid, i, results[(pid, i)], flush=True)
                    continue
                # the suite is run without the demonstration, exactly as the existing tests are
                demo_path = os.path.join(wt, "tests", name + ".rs")
                if os.path.exists(demo_path):
                    os.rename(demo_path, "/tmp/mutcheck_demo.rs")
                if os.path.exists(demo_diff):
                    sh("git apply -R %s" % demo_diff, wt)
                rc_suite, o2 = sh("cargo test --workspace --no-fail-fast --offline", wt)
                if os.path.exists("/tmp/mutcheck_demo.rs"):
                    os.rename("/tmp/mutcheck_demo.rs", demo_path)
                if os.path.exists(demo_diff):
                    sh("git apply %s" % demo_diff, wt)
                rc_demo, o3 = sh(cmd, wt)
                ok = rc_clean == 0 and rc_suite == 0 and rc_demo != 0
                r = {"confirmed": ok, "clean_demo_rc": rc_clean, "patched_suite_rc": rc_suite, "patched_demo_rc": rc_demo,
                     "demo_cmd": cmd, "patched_demo_tail": o3[-600:]}
                results[(pid, i)] = r
                print(pid, i, ok, rc_clean, rc_suite, rc_demo, flush=True)
                if ok:
                    d = "/verif/seeded/%s-%d" % (pid, i)
                    os.makedirs(d, exist_ok=True)
                    shutil.copy(patch, os.path.join(d, "patch.diff"))
                    if os.path.exists(demo_rs):
                        shutil.copy(demo_rs, os.path.join(d, "demo.rs"))
                    if os.path.exists(demo_diff):
                        shutil.copy(demo_diff, os.path.join(d, "demo.diff"))
                    m = {"property": pid, "summary": meta.get("summary"), "needs_to_manifest": meta.get("needs_to_manifest"),
                         "files_changed": meta.get("files_changed"), "demo_cmd": cmd,
                         "what_i_ran": ["clean tree: demo passes (rc 0)", "patched: `cargo test --workspace --no-fail-fast --offline` passes (rc 0)",
                                         "patched: demo fails (rc %d)" % rc_demo],
                         "base_commit": subprocess.run(["git", "-C", REPO, "rev-parse", "HEAD"], capture_output=True, text=True).stdout.strip(),
                         "origin": "independent sub-agent given only the property text and a scratch worktree"}
                    json.dump(m, open(os.path.join(d, "meta.json"), "w"), indent=1)
    finally:
        subprocess.run(["git", "-C", REPO, "worktree", "remove", "--force", wt], capture_output=True)
        shutil.rmtree(wt, ignore_errors=True)
if __name__ == "__main__":
    main()
