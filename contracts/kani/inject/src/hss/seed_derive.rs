// ---- injected by /verif (insert-only) ----
#[cfg(kani)]
pub(crate) mod kani_verif {
    use super::*;
    use crate::kani_support::*;

    /// hash-sigs PRNG block: I (16) || q (4, big-endian) || j (2, big-endian) || 0xff || seed (n)
    pub fn spec_prng_block<const N: usize>(i: &[u8; 16], q: u32, j: u16, seed: &[u8]) -> [u8; 64] {
        let mut b = [0u8; 64];
        b[..16].copy_from_slice(i);
        b[16..20].copy_from_slice(&q.to_be_bytes());
        b[20..22].copy_from_slice(&j.to_be_bytes());
        b[22] = 0xff;
        b[23..23 + N].copy_from_slice(&seed[..N]);
        b
    }

    fn check_seed_derive<const N: usize>() {
        type R<const N: usize> = RecHash<N, 64>;
        R::<N>::reset_log();
        let mut seed = Seed::<R<N>>::default();
        let sb: [u8; 32] = kani::any();
        seed.as_mut_slice().copy_from_slice(&sb[..N]);
        let id: [u8; 16] = kani::any();
        let q: u32 = kani::any();
        let j: u16 = kani::any();
        kani::assume(j < u16::MAX);
        let inc: bool = kani::any();
        let mut d = SeedDerive::new(&seed, &id);
        d.set_lms_leaf_identifier(q);
        d.set_child_seed(j);
        let r = d.seed_derive(inc);
        assert!(R::<N>::calls() == 1, "exactly one hash call");
        // the crate hashes the whole PRNG_MAX_LEN (55 byte) buffer: seed field zero-padded to 32 bytes
        let blk = spec_prng_block::<N>(&id, q, j, &sb);
        assert!(R::<N>::pre_is(0, &blk[..55]), "pre-image == I || q || j || 0xff || seed (seed field zero-filled to 32 bytes)");
        assert!(r.len() == N && r.as_slice() == &R::<N>::out(0)[..N], "result is the hash output truncated to n");
        let r2 = d.seed_derive(false);
        let blk2 = spec_prng_block::<N>(&id, q, if inc { j + 1 } else { j }, &sb);
        assert!(R::<N>::pre_is(1, &blk2[..55]) && r2.len() == N, "j advanced by one iff increment_j");
        kani::cover!(inc, "increment path");
    }

    // @h props=C08,C09,C03 tier=quick kind=proved funcs=SeedDerive::seed_derive;SeedDerive::new;SeedDerive::set_lms_leaf_identifier;SeedDerive::set_child_seed contract="one hash call on I||q||j||0xff||seed (55 bytes, seed zero-padded), result = output; j+1 afterwards iff increment_j; every seed/I/q/j; every hash function (recording hash), n=32"
    #[kani::proof]
    #[kani::stub(zeroize::optimization_barrier, no_barrier)]
    #[kani::stub(<[u8; 32] as tinyvec::Array>::default, fast_default)]
    #[kani::unwind(36)]
    fn c08_seed_derive_n32() {
        check_seed_derive::<32>();
    }
    // @h props=C08,C09!,C03 tier=quick kind=proved funcs=SeedDerive::seed_derive contract="same, n=24"
    #[kani::proof]
    #[kani::stub(zeroize::optimization_barrier, no_barrier)]
    #[kani::stub(<[u8; 32] as tinyvec::Array>::default, fast_default)]
    #[kani::unwind(36)]
    fn c08_seed_derive_n24() {
        check_seed_derive::<24>();
    }
    // @h props=C08,C09,C03 tier=thorough kind=proved funcs=SeedDerive::seed_derive contract="same, n=16"
    #[kani::proof]
    #[kani::stub(zeroize::optimization_barrier, no_barrier)]
    #[kani::stub(<[u8; 32] as tinyvec::Array>::default, fast_default)]
    #[kani::unwind(36)]
    fn c08_seed_derive_n16() {
        check_seed_derive::<16>();
    }
}
