// ---- injected by /verif (insert-only) ----
#[cfg(kani)]
pub(crate) mod kani_verif {
    use super::*;
    use crate::constants::{ILEN, MAX_HASH_SIZE};
    use crate::hasher::sha256::Sha256_128;
    use crate::kani_support::*;
    use crate::lms::definitions::LmsPrivateKey;
    use crate::{LmotsAlgorithm, LmsAlgorithm, Seed};
    use core::sync::atomic::{AtomicU8, AtomicUsize, Ordering};

    type H = Sha256_128;
    const N: usize = 16;

    // ---- contract stubs (bodies checked elsewhere: c08_child_seed_*, c07_lms_sign_*)
    static RAND_CALLS: AtomicUsize = AtomicUsize::new(0);
    static RAND_ARG: [AtomicU8; 16 + 16 + 4 + 32] = [const { AtomicU8::new(0) }; 68];
    pub fn stub_randomizer<H: HashChain>(
        child_seed: &SeedAndLmsTreeIdentifier<H>,
        parent_lms_leaf_identifier: &u32,
    ) -> ArrayVec<[u8; MAX_HASH_SIZE]> {
        RAND_CALLS.fetch_add(1, Ordering::Relaxed);
        let s = child_seed.seed.as_slice();
        let mut i = 0;
        while i < 16 {
            RAND_ARG[i].store(s[i], Ordering::Relaxed);
            RAND_ARG[16 + i].store(child_seed.lms_tree_identifier[i], Ordering::Relaxed);
            i += 1;
        }
        let q = parent_lms_leaf_identifier.to_be_bytes();
        i = 0;
        while i < 4 {
            RAND_ARG[32 + i].store(q[i], Ordering::Relaxed);
            i += 1;
        }
        let c: [u8; 32] = kani::any();
        i = 0;
        while i < 32 {
            RAND_ARG[36 + i].store(c[i], Ordering::Relaxed);
            i += 1;
        }
        ArrayVec::from_array_len(c, H::OUTPUT_SIZE as usize)
    }
    static LMS_SIGN_CALLS: AtomicUsize = AtomicUsize::new(0);
    static LMS_SIGN_ARG: [AtomicU8; 16 + 4 + 32 + 4] = [const { AtomicU8::new(0) }; 56];
    static LMS_SIGN_FAIL: AtomicUsize = AtomicUsize::new(0);
    pub fn stub_lms_sign<H: HashChain>(
        lms_private_key: &mut LmsPrivateKey<H>,
        message: &[u8],
        signature_randomizer: &ArrayVec<[u8; MAX_HASH_SIZE]>,
        _aux_data: &mut Option<MutableExpandedAuxData>,
    ) -> Result<LmsSignature<H>, ()> {
        LMS_SIGN_CALLS.fetch_add(1, Ordering::Relaxed);
        let mut i = 0;
        while i < 16 {
            LMS_SIGN_ARG[i].store(lms_private_key.lms_tree_identifier[i], Ordering::Relaxed);
            i += 1;
        }
        let q = lms_private_key.used_leafs_index.to_be_bytes();
        i = 0;
        while i < 4 {
            LMS_SIGN_ARG[16 + i].store(q[i], Ordering::Relaxed);
            i += 1;
        }
        i = 0;
        while i < signature_randomizer.len() {
            LMS_SIGN_ARG[20 + i].store(signature_randomizer[i], Ordering::Relaxed);
            i += 1;
        }
        i = 0;
        while i < 4 && i < message.len() {
            LMS_SIGN_ARG[52 + i].store(message[i], Ordering::Relaxed);
            i += 1;
        }
        if kani::any() {
            LMS_SIGN_FAIL.store(1, Ordering::Relaxed);
            return Err(());
        }
        let mut s = LmsSignature::<H>::default();
        s.lms_leaf_identifier = q;
        s.lms_parameter = lms_private_key.lms_parameter;
        s.lmots_signature.signature_randomizer = *signature_randomizer;
        lms_private_key.used_leafs_index += 1;
        Ok(s)
    }

    /// the serialisers of the parts are checked against RFC 8554 in c07_lms_sign_* / c11_keygen_*; HSS assembly only concatenates
    /// their results, so they are abstracted by short fixed encodings (parametricity in the encoders)
    pub fn stub_lms_sig_to_bytes<H: HashChain>(this: &LmsSignature<H>) -> ArrayVec<[u8; crate::constants::MAX_LMS_SIGNATURE_LENGTH]> {
        let mut r = ArrayVec::new();
        r.extend_from_slice(&this.lms_leaf_identifier);
        r.extend_from_slice(&this.lmots_signature.signature_randomizer.as_slice()[..8]);
        r
    }
    pub fn stub_lms_pub_to_bytes<H: HashChain>(this: &LmsPublicKey<H>) -> ArrayVec<[u8; crate::constants::MAX_LMS_PUBLIC_KEY_LENGTH]> {
        let mut r = ArrayVec::new();
        r.extend_from_slice(&this.lms_tree_identifier[..4]);
        r.extend_from_slice(&this.key.as_slice()[..8]);
        r
    }
    fn any_lms_sig() -> LmsSignature<H> {
        let mut s = LmsSignature::<H>::default();
        s.lms_leaf_identifier = kani::any();
        let c: [u8; 32] = kani::any();
        s.lmots_signature.signature_randomizer = ArrayVec::from_array_len(c, N);
        s
    }

    /// RFC 8554 section 6.2 (HSS signature assembly): u32(Nspk = L-1) || (sig_i || pub_{i+1}) for i < L-1 || sig_{L-1}
    fn check_hss_sign<const L: usize>() {
        RAND_CALLS.store(0, Ordering::Relaxed);
        LMS_SIGN_CALLS.store(0, Ordering::Relaxed);
        LMS_SIGN_FAIL.store(0, Ordering::Relaxed);
        let lmots = LmotsAlgorithm::LmotsW8.construct_parameter::<H>().unwrap();
        let lms = LmsAlgorithm::LmsH5.construct_parameter::<H>().unwrap();
        let mut key: HssPrivateKey<H> = Default::default();
        let mut ids = [[0u8; ILEN]; L];
        let mut seeds = [[0u8; 16]; L];
        let mut used = [0u32; L];
        let mut i = 0;
        while i < L {
            ids[i] = kani::any();
            seeds[i] = kani::any();
            used[i] = kani::any();
            kani::assume(used[i] < 32);
            let mut seed = Seed::<H>::default();
            seed.as_mut_slice().copy_from_slice(&seeds[i]);
            key.private_key.push(LmsPrivateKey::new(seed, ids[i], used[i], lmots, lms));
            if i + 1 < L {
                let mut pk = LmsPublicKey::<H>::default();
                let kb: [u8; 32] = kani::any();
                pk.key = ArrayVec::from_array_len(kb, N);
                pk.lms_tree_identifier = kani::any();
                pk.lmots_parameter = lmots;
                pk.lms_parameter = lms;
                key.public_key.push(pk);
                key.signatures.push(any_lms_sig());
            }
            i += 1;
        }
        let before_sigs = key.signatures.clone();
        let before_pubs = key.public_key.clone();
        let msg: [u8; 4] = kani::any();
        let r = HssSignature::sign(&mut key, Some(&msg), None, &mut None);
        assert!(RAND_CALLS.load(Ordering::Relaxed) == 1, "one randomizer derivation");
        let mut j = 0;
        while j < 16 {
            assert!(RAND_ARG[j].load(Ordering::Relaxed) == seeds[L - 1][j] && RAND_ARG[16 + j].load(Ordering::Relaxed) == ids[L - 1][j],
                "randomizer derived from the bottom tree's seed and identifier");
            j += 1;
        }
        assert!([RAND_ARG[32].load(Ordering::Relaxed), RAND_ARG[33].load(Ordering::Relaxed), RAND_ARG[34].load(Ordering::Relaxed), RAND_ARG[35].load(Ordering::Relaxed)]
            == used[L - 1].to_be_bytes(), "randomizer derived for the bottom tree's current leaf");
        assert!(LMS_SIGN_CALLS.load(Ordering::Relaxed) == 1, "exactly one LMS signature is made");
        j = 0;
        while j < 16 {
            assert!(LMS_SIGN_ARG[j].load(Ordering::Relaxed) == ids[L - 1][j], "message signed with the bottom tree");
            assert!(LMS_SIGN_ARG[20 + j].load(Ordering::Relaxed) == RAND_ARG[36 + j].load(Ordering::Relaxed), "with the derived randomizer");
            j += 1;
        }
        assert!([LMS_SIGN_ARG[52].load(Ordering::Relaxed), LMS_SIGN_ARG[53].load(Ordering::Relaxed), LMS_SIGN_ARG[54].load(Ordering::Relaxed), LMS_SIGN_ARG[55].load(Ordering::Relaxed)] == msg,
            "the caller's message is what gets signed");
        if LMS_SIGN_FAIL.load(Ordering::Relaxed) == 1 {
            assert!(r.is_err(), "LMS signing failure => no HSS signature");
        } else {
            let was_ok = r.is_ok();
            assert!(was_ok, "otherwise signing succeeds");
            let s = r.unwrap();
            assert!(s.level == L - 1 && s.signed_public_keys.len() == L - 1, "Nspk = L - 1");
            i = 0;
            while i + 1 < L {
                assert!(s.signed_public_keys[i].sig == before_sigs[i], "sig_i is the stored signature of level i over the child public key");
                assert!(s.signed_public_keys[i].public_key == before_pubs[i], "pub_{i+1} is the stored child public key");
                i += 1;
            }
            assert!(s.signature.lms_leaf_identifier == used[L - 1].to_be_bytes(), "message signature uses the bottom tree's current leaf");
            assert!(key.private_key[L - 1].used_leafs_index == used[L - 1] + 1, "which is consumed");
            // serialisation
            let bin = s.to_binary_representation();
            assert!(bin[..4] == ((L - 1) as u32).to_be_bytes(), "u32(Nspk)");
            let mut off = 4;
            i = 0;
            while i + 1 < L {
                let sb = s.signed_public_keys[i].sig.to_binary_representation();
                let pb = s.signed_public_keys[i].public_key.to_binary_representation();
                assert!(bin[off..off + sb.len()] == *sb.as_slice(), "sig_i bytes");
                off += sb.len();
                assert!(bin[off..off + pb.len()] == *pb.as_slice(), "pub_{i+1} bytes");
                off += pb.len();
                i += 1;
            }
            let fb = s.signature.to_binary_representation();
            assert!(bin[off..] == *fb.as_slice(), "message signature last, nothing after it");
            // an expanded key signs only once
            let r2 = HssSignature::sign(&mut key, Some(&msg), None, &mut None);
            assert!(r2.is_err() && LMS_SIGN_CALLS.load(Ordering::Relaxed) == 1, "second sign on the same expanded key is refused before any leaf is used");
        }
        kani::cover!(LMS_SIGN_FAIL.load(Ordering::Relaxed) == 0, "success path reachable");
        kani::cover!(LMS_SIGN_FAIL.load(Ordering::Relaxed) == 1, "failure path reachable");
    }

    macro_rules! h {
        ($name:ident, $l:expr) => {
            #[kani::proof]
            #[kani::stub(zeroize::optimization_barrier, no_barrier)]
            #[kani::stub(<[u8; 32] as tinyvec::Array>::default, fast_default)]
            #[kani::stub(crate::hss::reference_impl_private_key::generate_signature_randomizer, stub_randomizer)]
            #[kani::stub(crate::lms::signing::LmsSignature::sign, stub_lms_sign)]
            #[kani::stub(crate::lms::signing::LmsSignature::to_binary_representation, stub_lms_sig_to_bytes)]
            #[kani::stub(crate::lms::definitions::LmsPublicKey::to_binary_representation, stub_lms_pub_to_bytes)]
            #[kani::unwind(40)]
            fn $name() {
                check_hss_sign::<$l>();
            }
        };
    }
    // @h name=c07_hss_sign_l1 props=C07,C03,C01 tier=extended kind=proved cfg=w8 timeout=2400 funcs=HssSignature::sign;HssSignature::to_binary_representation;HssSignedPublicKey::new;HssSignedPublicKey::to_binary_representation;LmsPublicKey::to_binary_representation contract="RFC 8554 6.2: Nspk=L-1, (sig_i, pub_{i+1}) = stored pairs in order, message signed by the bottom tree's current leaf with randomizer generate_signature_randomizer(bottom seed/I, q); serialisation order; refuses a second sign; L=1"
    h!(c07_hss_sign_l1, 1);
    // @h name=c07_hss_sign_l2 props=C07,C03,C01 tier=extended kind=proved cfg=w8 timeout=2400 funcs=HssSignature::sign;HssSignature::to_binary_representation contract="same, L=2"
    h!(c07_hss_sign_l2, 2);
    // @h name=c07_hss_sign_l3 props=C07,C03,C01 tier=extended kind=proved cfg=w8 timeout=3600 funcs=HssSignature::sign;HssSignature::to_binary_representation contract="same, L=3"
    h!(c07_hss_sign_l3, 3);
    // @h name=c07_hss_sign_l8 props=C07,C03,C01 tier=extended kind=proved cfg=w8 timeout=7200 funcs=HssSignature::sign;HssSignature::to_binary_representation contract="same, L=8 (maximum level count)"
    h!(c07_hss_sign_l8, 8);
}
