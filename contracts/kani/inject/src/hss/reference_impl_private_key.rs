// ---- injected by /verif (insert-only) ----
#[cfg(kani)]
pub(crate) mod kani_verif {
    extern crate std;
    use super::*;
    use crate::hasher::sha256::Sha256_128;
    use crate::kani_support::*;
    use crate::lms::definitions::LmsPrivateKey;

    type H = Sha256_128;

    // ------------------------------------------------------------------ contract predicates
    /// precondition of CompressedUsedLeafsIndexes::increment, derived from its only call site
    /// (ReferenceImplPrivateKey::increment): 1..=8 levels, each height a supported LMS height.
    pub fn heights_wellformed(tree_heights: &ArrayVec<[u8; MAX_ALLOWED_HSS_LEVELS]>) -> bool {
        let n = tree_heights.len();
        if n == 0 || n > MAX_ALLOWED_HSS_LEVELS {
            return false;
        }
        let mut i = 0;
        while i < n {
            let h = tree_heights[i];
            if !(h == 2 || h == 5 || h == 10 || h == 15 || h == 20 || h == 25) {
                return false;
            }
            i += 1;
        }
        true
    }

    /// postcondition (C13/C05/C03): successor of c is c+1 until the last leaf, refusal (state untouched) after it
    pub fn increment_post(
        old: u64,
        tree_heights: &ArrayVec<[u8; MAX_ALLOWED_HSS_LEVELS]>,
        new: u64,
        r: &Result<(), ()>,
    ) -> bool {
        let mut hs = [0u32; MAX_ALLOWED_HSS_LEVELS];
        let n = tree_heights.len();
        let mut i = 0;
        while i < n {
            hs[i] = tree_heights[i] as u32;
            i += 1;
        }
        let last = spec_last_counter(&hs[..n]);
        if old < last {
            r.is_ok() && new == old + 1
        } else {
            r.is_err() && new == old
        }
    }

    impl kani::Arbitrary for CompressedUsedLeafsIndexes {
        fn any() -> Self {
            CompressedUsedLeafsIndexes { count: kani::any() }
        }
    }

    fn any_heights<const L: usize>(allow_h2: bool) -> ([u8; L], [u32; L]) {
        let mut codes = [0u8; L];
        let mut hs = [0u32; L];
        let mut i = 0;
        while i < L {
            codes[i] = any_lms_code(allow_h2);
            hs[i] = spec_height_of_lms_code(codes[i]).unwrap();
            i += 1;
        }
        (codes, hs)
    }

    // ------------------------------------------------------------------ CompressedUsedLeafsIndexes::to
    fn check_to<const L: usize>() {
        let (codes, hs) = any_heights::<L>(true);
        let w = [4u8; L];
        let params = param_list::<H>(&codes, &w);
        let c: u64 = kani::any();
        let r = CompressedUsedLeafsIndexes::new(c).to(&params);
        let mut i = 0;
        while i < L {
            assert!(r[i] == spec_digit(c, &hs, i), "leaf index of level i is the mixed-radix digit of the counter");
            i += 1;
        }
        while i < MAX_ALLOWED_HSS_LEVELS {
            assert!(r[i] == 0, "unused levels stay zero");
            i += 1;
        }
        kani::cover!(spec_total_height(&hs) > 63 || L < 3, "tall lists reachable");
        kani::cover!(r[L - 1] == 3, "non-trivial digit reachable");
    }

    macro_rules! to_harness {
        ($name:ident, $l:expr) => {
            #[kani::proof]
            #[kani::stub(zeroize::optimization_barrier, no_barrier)]
            #[kani::stub(<[u8; 32] as tinyvec::Array>::default, fast_default)]
            #[kani::unwind(10)]
            fn $name() {
                check_to::<$l>();
            }
        };
    }
    // @h name=c13_to_l1 props=C13,C03 tier=quick kind=proved funcs=CompressedUsedLeafsIndexes::to contract="to(c)[i]==digit_i(c) for all u64 c, all height lists of length 1"
    to_harness!(c13_to_l1, 1);
    // @h name=c13_to_l2 props=C13,C03!,C07!,C01! tier=quick kind=proved funcs=CompressedUsedLeafsIndexes::to contract="to(c)[i]==digit_i(c), length 2"
    to_harness!(c13_to_l2, 2);
    // @h name=c13_to_l3 props=C13,C03!,C07!,C01! tier=quick kind=proved funcs=CompressedUsedLeafsIndexes::to contract="to(c)[i]==digit_i(c), length 3"
    to_harness!(c13_to_l3, 3);
    // @h name=c13_to_l4 props=C13,C03 tier=quick kind=proved funcs=CompressedUsedLeafsIndexes::to contract="to(c)[i]==digit_i(c), length 4"
    to_harness!(c13_to_l4, 4);
    // @h name=c13_to_l5 props=C13,C03 tier=thorough kind=proved funcs=CompressedUsedLeafsIndexes::to contract="to(c)[i]==digit_i(c), length 5"
    to_harness!(c13_to_l5, 5);
    // @h name=c13_to_l6 props=C13,C03 tier=thorough kind=proved funcs=CompressedUsedLeafsIndexes::to contract="to(c)[i]==digit_i(c), length 6"
    to_harness!(c13_to_l6, 6);
    // @h name=c13_to_l7 props=C13,C03 tier=thorough kind=proved funcs=CompressedUsedLeafsIndexes::to contract="to(c)[i]==digit_i(c), length 7"
    to_harness!(c13_to_l7, 7);
    // @h name=c13_to_l8 props=C13,C03 tier=thorough kind=proved funcs=CompressedUsedLeafsIndexes::to contract="to(c)[i]==digit_i(c), length 8"
    to_harness!(c13_to_l8, 8);

    // ------------------------------------------------------------------ CompressedUsedLeafsIndexes::increment (function contract)
    fn check_inc<const L: usize>() {
        let (_codes, hs) = any_heights::<L>(true);
        let mut v: ArrayVec<[u8; MAX_ALLOWED_HSS_LEVELS]> = ArrayVec::new();
        let mut i = 0;
        while i < L {
            v.push(hs[i] as u8);
            i += 1;
        }
        let mut c: CompressedUsedLeafsIndexes = kani::any();
        let r = c.increment(&v);
        kani::cover!(r.is_ok(), "precondition satisfiable: success path");
        kani::cover!(r.is_err(), "precondition satisfiable: exhausted path");
    }
    macro_rules! inc_harness {
        ($name:ident, $l:expr) => {
            #[kani::proof_for_contract(CompressedUsedLeafsIndexes::increment)]
            #[kani::stub(zeroize::optimization_barrier, no_barrier)]
            #[kani::stub(<[u8; 32] as tinyvec::Array>::default, fast_default)]
            #[kani::unwind(10)]
            fn $name() {
                check_inc::<$l>();
            }
        };
    }
    // @h name=c13_inc_l1 props=C13,C05,C03 tier=quick kind=proved funcs=CompressedUsedLeafsIndexes::increment contract="kani contract: c<last => Ok,c+1; else Err,unchanged; 1 level"
    inc_harness!(c13_inc_l1, 1);
    // @h name=c13_inc_l2 props=C13,C05!,C03!,C16! tier=quick kind=proved funcs=CompressedUsedLeafsIndexes::increment contract="same, 2 levels"
    inc_harness!(c13_inc_l2, 2);
    // @h name=c13_inc_l3 props=C13,C05!,C03,C16! tier=quick kind=proved funcs=CompressedUsedLeafsIndexes::increment contract="same, 3 levels (covers total height 64..75)"
    inc_harness!(c13_inc_l3, 3);
    // @h name=c13_inc_l4 props=C13,C05,C03 tier=thorough kind=proved funcs=CompressedUsedLeafsIndexes::increment contract="same, 4 levels"
    inc_harness!(c13_inc_l4, 4);
    // @h name=c13_inc_l5 props=C13,C05,C03 tier=thorough kind=proved funcs=CompressedUsedLeafsIndexes::increment contract="same, 5 levels"
    inc_harness!(c13_inc_l5, 5);
    // @h name=c13_inc_l6 props=C13,C05,C03 tier=thorough kind=proved funcs=CompressedUsedLeafsIndexes::increment contract="same, 6 levels"
    inc_harness!(c13_inc_l6, 6);
    // @h name=c13_inc_l7 props=C13,C05,C03 tier=thorough kind=proved funcs=CompressedUsedLeafsIndexes::increment contract="same, 7 levels"
    inc_harness!(c13_inc_l7, 7);
    // @h name=c13_inc_l8 props=C13,C05,C03 tier=thorough kind=proved funcs=CompressedUsedLeafsIndexes::increment contract="same, 8 levels"
    inc_harness!(c13_inc_l8, 8);

    // ------------------------------------------------------------------ ReferenceImplPrivateKey::increment (outer; callee by contract)
    pub fn make_hss_key<const L: usize>(codes: &[u8; L], used: &[u32; L]) -> HssPrivateKey<H> {
        let mut k: HssPrivateKey<H> = Default::default();
        let mut i = 0;
        while i < L {
            let p = HssParameter::<H>::new(LmotsAlgorithm::LmotsW8, LmsAlgorithm::from(codes[i] as u32));
            k.private_key.push(LmsPrivateKey::new(
                Seed::default(),
                [0u8; ILEN],
                used[i],
                *p.get_lmots_parameter(),
                *p.get_lms_parameter(),
            ));
            i += 1;
        }
        k
    }

    /// Contract of ReferenceImplPrivateKey::increment as an executable stub (used by callers' harnesses: hss_sign_core).
    /// It is exactly the statement check_outer_inc proves about the real body: counter < last => counter + 1 and nothing
    /// else changes; otherwise the wiped key (counter 0, parameter bytes 0xff, seed all zero).
    pub fn contract_outer_increment<H: HashChain>(this: &mut ReferenceImplPrivateKey<H>, hss_private_key: &HssPrivateKey<H>) {
        let mut hs = [0u32; MAX_ALLOWED_HSS_LEVELS];
        let n = hss_private_key.private_key.len();
        let mut i = 0;
        while i < n {
            hs[i] = hss_private_key.private_key[i].lms_parameter.get_tree_height() as u32;
            i += 1;
        }
        let last = spec_last_counter(&hs[..n]);
        if this.compressed_used_leafs_indexes.count < last {
            this.compressed_used_leafs_indexes.count += 1;
        } else {
            this.seed = Seed::default();
            this.compressed_parameter = CompressedParameterSet([0xff; MAX_ALLOWED_HSS_LEVELS]);
            this.compressed_used_leafs_indexes = CompressedUsedLeafsIndexes::new(0);
        }
    }

    /// Contract of CompressedUsedLeafsIndexes::to as an executable stub (what c13_to_l* prove about the real body):
    /// entry i is the mixed-radix digit i of the counter, unused entries are zero.
    pub fn contract_to<H: HashChain>(
        this: &CompressedUsedLeafsIndexes,
        parameters: &ArrayVec<[HssParameter<H>; MAX_ALLOWED_HSS_LEVELS]>,
    ) -> [u32; MAX_ALLOWED_HSS_LEVELS] {
        let mut hs = [0u32; MAX_ALLOWED_HSS_LEVELS];
        let n = parameters.len();
        let mut i = 0;
        while i < n {
            hs[i] = parameters[i].get_lms_parameter().get_tree_height() as u32;
            i += 1;
        }
        let mut out = [0u32; MAX_ALLOWED_HSS_LEVELS];
        i = 0;
        while i < n {
            out[i] = spec_digit(this.count, &hs[..n], i);
            i += 1;
        }
        out
    }

    /// parameter set from an array without going through memcpy (keeps concrete bytes concrete for CBMC's constant propagation)
    pub fn cps_from_array(pb: [u8; MAX_ALLOWED_HSS_LEVELS]) -> CompressedParameterSet {
        CompressedParameterSet(pb)
    }

    fn any_ref_key() -> ReferenceImplPrivateKey<H> {
        let mut k = ReferenceImplPrivateKey::<H>::default();
        k.compressed_used_leafs_indexes = CompressedUsedLeafsIndexes::new(kani::any());
        let pb: [u8; MAX_ALLOWED_HSS_LEVELS] = kani::any();
        k.compressed_parameter = CompressedParameterSet(pb);
        let sd: [u8; 16] = kani::any();
        k.seed.as_mut_slice().copy_from_slice(&sd);
        k
    }

    fn check_outer_inc<const L: usize>() {
        let (codes, hs) = any_heights::<L>(true);
        let used = [0u32; L];
        let hss = make_hss_key::<L>(&codes, &used);
        let mut k = any_ref_key();
        let before = k.clone();
        let old_blob = before.to_binary_representation();
        k.increment(&hss);
        let last = spec_last_counter(&hs);
        let c = before.compressed_used_leafs_indexes.count;
        let blob = k.to_binary_representation();
        assert!(blob.len() == old_blob.len(), "successor key has the same length");
        if c < last {
            assert!(k.compressed_used_leafs_indexes.count == c + 1, "counter advanced by exactly one");
            assert!(k.compressed_parameter == before.compressed_parameter, "parameters untouched");
            assert!(k.seed == before.seed, "seed untouched");
            assert!(blob[8..] == old_blob[8..], "only the counter bytes of the blob change");
            assert!(blob[..8] == (c + 1).to_be_bytes(), "counter is stored big-endian");
        } else {
            // wiped state: counter 0, parameter bytes reset to the end marker, seed all zero
            assert!(k.compressed_used_leafs_indexes.count == 0, "wiped counter");
            let mut i = 0;
            while i < blob.len() {
                let expect = if i < 8 { 0u8 } else if i < 16 { 0xff } else { 0 };
                assert!(blob[i] == expect, "wiped blob is 0^8 || ff^8 || 0^n");
                i += 1;
            }
            assert!(k.seed.data.0.iter().all(|b| *b == 0), "seed bytes (whole capacity) are zero after the wipe");
            assert!(k.compressed_parameter.to::<H>().is_err(), "wiped key is rejected on load");
        }
        kani::cover!(c < last, "normal path reachable");
        kani::cover!(c >= last, "exhaustion path reachable");
    }
    macro_rules! outer_inc_harness {
        ($name:ident, $l:expr) => {
            #[kani::proof]
            #[kani::stub(zeroize::optimization_barrier, no_barrier)]
            #[kani::stub(<[u8; 32] as tinyvec::Array>::default, fast_default)]
            #[kani::stub_verified(CompressedUsedLeafsIndexes::increment)]
            #[kani::unwind(50)]
            fn $name() {
                check_outer_inc::<$l>();
            }
        };
    }
    // @h name=c05_outer_inc_l1 props=C05,C13!,C03!,C16! tier=quick kind=proved funcs=ReferenceImplPrivateKey::increment;ReferenceImplPrivateKey::wipe;ReferenceImplPrivateKey::to_binary_representation contract="successor key = counter+1 with params/seed untouched, or the wiped blob 0^8||ff^8||0^n; callee increment by its verified contract; 1 level"
    outer_inc_harness!(c05_outer_inc_l1, 1);
    // @h name=c05_outer_inc_l2 props=C05,C13,C03,C16 tier=quick kind=proved funcs=ReferenceImplPrivateKey::increment;ReferenceImplPrivateKey::wipe contract="same, 2 levels"
    outer_inc_harness!(c05_outer_inc_l2, 2);
    // @h name=c05_outer_inc_l3 props=C05,C13,C03,C16 tier=thorough kind=proved funcs=ReferenceImplPrivateKey::increment;ReferenceImplPrivateKey::wipe contract="same, 3 levels"
    outer_inc_harness!(c05_outer_inc_l3, 3);
    // @h name=c05_outer_inc_l8 props=C05,C13,C03,C16 tier=thorough kind=proved funcs=ReferenceImplPrivateKey::increment;ReferenceImplPrivateKey::wipe contract="same, 8 levels"
    outer_inc_harness!(c05_outer_inc_l8, 8);

    // ================================================================== C08 / C09 / C03(e): key derivation (recording hash)
    use crate::hss::seed_derive::kani_verif::spec_prng_block;

    /// hash-sigs top-seed block: 20 zero bytes || D_TOPSEED (0xfe 0xfe) || which (1) || seed field (32 bytes)
    fn spec_topseed_block(which: u8, seed_field: &[u8; 32]) -> [u8; 55] {
        let mut b = [0u8; 55];
        b[20] = 0xfe;
        b[21] = 0xfe;
        b[22] = which;
        b[23..55].copy_from_slice(seed_field);
        b
    }

    fn check_root_seed<const N: usize>() {
        type R<const N: usize> = RecHash<N, 64>;
        R::<N>::reset_log();
        let mut k = ReferenceImplPrivateKey::<R<N>>::default();
        let sb: [u8; 32] = kani::any();
        k.seed = Seed::from(sb); // whole backing buffer symbolic: bytes beyond n must not matter
        let r = k.generate_root_seed_and_lms_tree_identifier();
        assert!(R::<N>::calls() == 3, "exactly three hash calls");
        let mut f0 = [0u8; 32];
        f0[..N].copy_from_slice(&sb[..N]);
        assert!(R::<N>::pre_is(0, &spec_topseed_block(0, &f0)), "call 0: topseed block with which=0 over the key's n seed bytes (zero-filled)");
        let mut f1 = [0u8; 32];
        f1[..N].copy_from_slice(&R::<N>::out(0)[..N]);
        assert!(R::<N>::pre_is(1, &spec_topseed_block(1, &f1)), "call 1: which=1 over the first output");
        assert!(R::<N>::pre_is(2, &spec_topseed_block(2, &f1)), "call 2: which=2 over the first output");
        assert!(r.seed.as_slice() == &R::<N>::out(1)[..N], "root seed = output 1");
        assert!(r.lms_tree_identifier[..] == R::<N>::out(2)[..ILEN], "root tree identifier = first 16 bytes of output 2");
        kani::cover!(sb[N - 1] != 0, "non-trivial seed reachable");
    }
    macro_rules! rec_harness {
        ($name:ident, $body:expr, $unw:expr) => {
            #[kani::proof]
            #[kani::stub(zeroize::optimization_barrier, no_barrier)]
            #[kani::stub(<[u8; 32] as tinyvec::Array>::default, fast_default)]
            #[kani::unwind($unw)]
            fn $name() {
                $body;
            }
        };
    }
    // @h name=c08_root_seed_n32 props=C08,C09,C03,C01 tier=thorough kind=proved cfg=w8 funcs=ReferenceImplPrivateKey::generate_root_seed_and_lms_tree_identifier contract="3 hash calls on the hash-sigs top-seed pre-images; (seed, I) = (out1, out2[..16]); depends only on the n stored seed bytes; every seed, every hash function; n=32"
    rec_harness!(c08_root_seed_n32, check_root_seed::<32>(), 36);
    // @h name=c08_root_seed_n24 props=C08,C09!,C03,C01!,C07! tier=quick kind=proved cfg=w8 funcs=ReferenceImplPrivateKey::generate_root_seed_and_lms_tree_identifier contract="same, n=24 (8 backing bytes beyond the seed must not influence the result)"
    rec_harness!(c08_root_seed_n24, check_root_seed::<24>(), 36);
    // @h name=c08_root_seed_n16 props=C08,C09,C03,C01 tier=extended kind=proved cfg=w8 funcs=ReferenceImplPrivateKey::generate_root_seed_and_lms_tree_identifier contract="same, n=16"
    rec_harness!(c08_root_seed_n16, check_root_seed::<16>(), 36);

    fn check_child_and_randomizer<const N: usize>() {
        type R<const N: usize> = RecHash<N, 64>;
        R::<N>::reset_log();
        let sb: [u8; 32] = kani::any();
        let id: [u8; 16] = kani::any();
        let mut parent = SeedAndLmsTreeIdentifier::<R<N>>::default();
        parent.seed = Seed::from(sb);
        parent.lms_tree_identifier = id;
        let q: u32 = kani::any();
        let child = generate_child_seed_and_lms_tree_identifier(&parent, &q);
        assert!(R::<N>::calls() == 2, "child derivation: two hash calls");
        assert!(R::<N>::pre_is(0, &spec_prng_block::<N>(&id, q, 0xfffe, &sb)[..55]), "child seed: I||q||0xfffe||0xff||seed");
        assert!(R::<N>::pre_is(1, &spec_prng_block::<N>(&id, q, 0xffff, &sb)[..55]), "child I: I||q||0xffff||0xff||seed");
        assert!(child.seed.as_slice() == &R::<N>::out(0)[..N], "child seed = output 0");
        assert!(child.lms_tree_identifier[..] == R::<N>::out(1)[..ILEN], "child tree identifier = first 16 bytes of output 1");
        let c = generate_signature_randomizer(&parent, &q);
        assert!(R::<N>::calls() == 3, "randomizer: one hash call");
        assert!(R::<N>::pre_is(2, &spec_prng_block::<N>(&id, q, 0xfffd, &sb)[..55]), "randomizer: I||q||0xfffd||0xff||seed");
        assert!(c.len() == N && c.as_slice() == &R::<N>::out(2)[..N], "randomizer = output");
        kani::cover!(q == 0x01020304, "non-trivial q reachable");
    }
    // @h name=c08_child_seed_n32 props=C08,C09!,C03!,C07!,C01! tier=quick kind=proved cfg=w8 funcs=generate_child_seed_and_lms_tree_identifier;generate_signature_randomizer contract="child (seed, I) = H(I||q||0xfffe||0xff||seed), H(I||q||0xffff||0xff||seed)[..16]; randomizer C = H(I||q||0xfffd||0xff||seed); every parent seed/I/q, every hash function, n=32"
    rec_harness!(c08_child_seed_n32, check_child_and_randomizer::<32>(), 36);
    // @h name=c08_child_seed_n24 props=C08,C09,C03,C07 tier=extended kind=proved cfg=w8 funcs=generate_child_seed_and_lms_tree_identifier;generate_signature_randomizer contract="same, n=24"
    rec_harness!(c08_child_seed_n24, check_child_and_randomizer::<24>(), 36);

    // ================================================================== C08: key blob encoding
    fn check_blob<const L: usize>() {
        type HH = Sha256_128;
        let (codes, _hs) = any_heights::<L>(true);
        let mut wc = [0u8; L];
        let mut i = 0;
        while i < L {
            wc[i] = any_lmots_code();
            // within the limits of this build (no restriction in the default build)
            kani::assume(_hs[i] as usize <= crate::constants::TREE_HEIGHTS[i]);
            kani::assume(spec_w_of_lmots_code(wc[i]).unwrap() as usize >= crate::constants::WINTERNITZ_PARAMETERS[i]);
            i += 1;
        }
        let params = param_list::<HH>(&codes, &wc);
        let sb: [u8; 16] = kani::any();
        let mut seed = Seed::<HH>::default();
        seed.as_mut_slice().copy_from_slice(&sb);
        let k = ReferenceImplPrivateKey::<HH>::generate(params.as_slice(), &seed).unwrap();
        let blob = k.to_binary_representation();
        assert!(blob.len() == 8 + 8 + 16, "blob length 8 + 8 + n");
        assert!(blob[..8] == [0u8; 8], "fresh key: counter 0, big-endian");
        i = 0;
        while i < 8 {
            let expect = if i < L { (codes[i] << 4) | wc[i] } else { 0xff };
            assert!(blob[8 + i] == expect, "parameter byte = height code << 4 | winternitz code, 0xff padding");
            i += 1;
        }
        assert!(blob[16..] == sb[..], "seed follows");
        let back = ReferenceImplPrivateKey::<HH>::from_binary_representation(blob.as_slice()).unwrap();
        assert!(back == k, "parse(serialise(k)) == k");
        let ps = back.compressed_parameter.to::<HH>().unwrap();
        assert!(ps.len() == L, "decoded level count");
        i = 0;
        while i < L {
            assert!(ps[i] == params[i], "decoded parameters equal the original list");
            i += 1;
        }
        kani::cover!(true, "reachable");
    }
    // @h name=c08_blob_l1 props=C08,C14! tier=quick kind=proved cfg=default funcs=ReferenceImplPrivateKey::generate;ReferenceImplPrivateKey::to_binary_representation;ReferenceImplPrivateKey::from_binary_representation;CompressedParameterSet::from;CompressedParameterSet::to contract="blob == be64(0) || (hcode<<4|wcode) x L || 0xff padding to 8 || seed; round trip; all parameter choices of 1 level, every seed"
    rec_harness!(c08_blob_l1, check_blob::<1>(), 36);
    // @h name=c08_blob_l3 props=C08,C14 tier=quick kind=proved cfg=default funcs=ReferenceImplPrivateKey::generate;ReferenceImplPrivateKey::to_binary_representation;CompressedParameterSet::from;CompressedParameterSet::to contract="same, 3 levels"
    rec_harness!(c08_blob_l3, check_blob::<3>(), 36);
    // @h name=c08_blob_l8 props=C08,C14 tier=thorough kind=proved cfg=default funcs=ReferenceImplPrivateKey::generate;ReferenceImplPrivateKey::to_binary_representation;CompressedParameterSet::from;CompressedParameterSet::to contract="same, 8 levels"
    rec_harness!(c08_blob_l8, check_blob::<8>(), 36);

    // ---- C14: the same blob contract under reduced builds (=> same bytes as the default build, key stays loadable)
    // @h name=c14_blob_l1_L2w8 props=C14 tier=quick kind=proved cfg=L2w8 funcs=ReferenceImplPrivateKey::to_binary_representation;ReferenceImplPrivateKey::from_binary_representation;CompressedParameterSet::to contract="2-level build: blob of a 1-level key == be64(0)||param byte||0xff x7||seed (identical to the default build), parses back"
    rec_harness!(c14_blob_l1_L2w8, check_blob::<1>(), 36);
    // @h name=c14_blob_l2_L2w8 props=C14 tier=quick kind=proved cfg=L2w8 funcs=ReferenceImplPrivateKey::to_binary_representation;ReferenceImplPrivateKey::from_binary_representation;CompressedParameterSet::to contract="2-level build: 2-level key"
    rec_harness!(c14_blob_l2_L2w8, check_blob::<2>(), 36);
    // @h name=c14_blob_l1_L1 props=C14 tier=thorough kind=proved cfg=L1 funcs=ReferenceImplPrivateKey::to_binary_representation;ReferenceImplPrivateKey::from_binary_representation;CompressedParameterSet::to contract="1-level build: 1-level key"
    rec_harness!(c14_blob_l1_L1, check_blob::<1>(), 36);
    // @h name=c14_blob_l2_L2small props=C14 tier=thorough kind=proved cfg=L2small funcs=ReferenceImplPrivateKey::to_binary_representation;ReferenceImplPrivateKey::from_binary_representation;CompressedParameterSet::to contract="build with limits heights (10,5), W (4,8): 2-level keys within the limits"
    rec_harness!(c14_blob_l2_L2small, check_blob::<2>(), 36);

    // ---- parameter byte packing alone (cheap): all level counts in the quick tier
    fn check_param_roundtrip<const L: usize>() {
        type HH = Sha256_128;
        let (codes, hs) = any_heights::<L>(true);
        let mut wc = [0u8; L];
        let mut i = 0;
        while i < L {
            wc[i] = any_lmots_code();
            kani::assume(hs[i] as usize <= crate::constants::TREE_HEIGHTS[i]);
            kani::assume(spec_w_of_lmots_code(wc[i]).unwrap() as usize >= crate::constants::WINTERNITZ_PARAMETERS[i]);
            i += 1;
        }
        let params = param_list::<HH>(&codes, &wc);
        let c = CompressedParameterSet::from(params.as_slice()).unwrap();
        i = 0;
        while i < MAX_ALLOWED_HSS_LEVELS {
            assert!(c.0[i] == if i < L { (codes[i] << 4) | wc[i] } else { 0xff }, "height code in the high nibble, Winternitz code in the low nibble, 0xff padding");
            i += 1;
        }
        let back = c.to::<HH>().unwrap();
        assert!(back.len() == L, "all L levels are decoded");
        i = 0;
        while i < L {
            assert!(back[i] == params[i], "decoded level i equals the original");
            i += 1;
        }
        kani::cover!(true, "reachable");
    }
    // @h name=c08_params_roundtrip_l8 props=C08,C13!,C01!,C07! tier=quick kind=proved cfg=default funcs=CompressedParameterSet::from;CompressedParameterSet::to contract="to(from(list)) == list and byte layout, every 8-level list"
    rec_harness!(c08_params_roundtrip_l8, check_param_roundtrip::<8>(), 36);
    // @h name=c08_params_roundtrip_l5 props=C08,C13,C01 tier=quick kind=proved cfg=default funcs=CompressedParameterSet::from;CompressedParameterSet::to contract="same, every 5-level list"
    rec_harness!(c08_params_roundtrip_l5, check_param_roundtrip::<5>(), 36);

    // ---- F10: signatures longer than an ArrayVec can hold (u16 length) are refused up front
    /// RFC 8554: HSS signature = 4 + sum_i lms_sig_len(n, p_i, h_i) + (L-1) * lms_pub_len(n), written from the RFC
    fn spec_hss_sig_len(n: u32, hs: &[u32], ws: &[u32]) -> u32 {
        let mut len = 4 + (hs.len() as u32 - 1) * (24 + n);
        let mut i = 0;
        while i < hs.len() {
            let (_u, _v, _ls, p) = spec_appendix_b(n, ws[i]);
            len += 4 + (4 + n * (p + 1)) + 4 + n * hs[i];
            i += 1;
        }
        len
    }
    fn check_representable<const L: usize>() {
        type HH = crate::hasher::sha256::Sha256_256;
        let (codes, hs) = any_heights::<L>(false);
        let mut wc = [0u8; L];
        let mut ws = [0u32; L];
        let mut i = 0;
        while i < L {
            wc[i] = any_lmots_code();
            ws[i] = spec_w_of_lmots_code(wc[i]).unwrap();
            i += 1;
        }
        let params = param_list::<HH>(&codes, &wc);
        let fits = spec_hss_sig_len(32, &hs, &ws) <= 65535;
        let r = CompressedParameterSet::from(params.as_slice());
        assert!(r.is_ok() == fits, "keygen accepts a list iff its HSS signature fits the 65535 bytes an ArrayVec can hold");
        // loading a key blob with these parameter bytes (e.g. written by another implementation) follows the same rule
        let mut pb = [0xffu8; MAX_ALLOWED_HSS_LEVELS];
        i = 0;
        while i < L {
            pb[i] = (codes[i] << 4) | wc[i];
            i += 1;
        }
        let back = cps_from_array(pb).to::<HH>();
        assert!(back.is_ok() == fits, "and a stored key decodes iff its signature is representable: Err before anything is signed");
        kani::cover!(fits, "representable list reachable");
        kani::cover!(L < 7 || !fits, "too long list reachable");
    }
    // @h name=c11_sig_representable_l8 props=C11,C04!,C01!,C14! tier=quick kind=proved cfg=default timeout=900 funcs=CompressedParameterSet::from;CompressedParameterSet::to;hss_signature_is_representable contract="n=32, every 8-level list: keygen and key loading accept it iff 4 + sum lms_sig_len + 7*56 <= 65535 (tinyvec ArrayVec length is a u16); otherwise Err before any leaf is used"
    rec_harness!(c11_sig_representable_l8, check_representable::<8>(), 36);
    // @h name=c11_sig_representable_l7 props=C11,C04,C01,C14 tier=thorough kind=proved cfg=default timeout=900 funcs=CompressedParameterSet::from;CompressedParameterSet::to;hss_signature_is_representable contract="same, every 7-level list"
    rec_harness!(c11_sig_representable_l7, check_representable::<7>(), 36);
    // @h name=c11_sig_representable_l3 props=C11,C04,C01,C14 tier=thorough kind=proved cfg=default timeout=900 funcs=CompressedParameterSet::from;CompressedParameterSet::to contract="same, every 3-level list (always accepted)"
    rec_harness!(c11_sig_representable_l3, check_representable::<3>(), 36);
}
