// ---- injected by /verif (insert-only) ----
#[cfg(kani)]
pub(crate) mod kani_verif {
    extern crate std;
    use super::*;
    use crate::hss::reference_impl_private_key::kani_verif::make_hss_key;
    use crate::kani_support::*;

    // ------------------------------------------------------------------ HssPrivateKey::get_lifetime
    /// contract (C13/C05): for a well-formed expanded key of counter c (bottom level used = digit, upper levels
    /// used = digit + 1, exactly what HssPrivateKey::from leaves behind) the remaining lifetime is N - c when
    /// sum(h) <= 63; for taller keys no arithmetic failure.
    fn check_lifetime<const L: usize>() {
        let mut codes = [0u8; L];
        let mut hs = [0u32; L];
        let mut i = 0;
        while i < L {
            codes[i] = any_lms_code(true);
            hs[i] = spec_height_of_lms_code(codes[i]).unwrap();
            i += 1;
        }
        let total = spec_total_height(&hs);
        let c: u64 = kani::any();
        if total <= 63 {
            kani::assume((c as u128) < spec_total_leaves(&hs));
        }
        let mut used = [0u32; L];
        i = 0;
        while i < L {
            used[i] = spec_digit(c, &hs, i) + if i + 1 < L { 1 } else { 0 };
            i += 1;
        }
        let key = make_hss_key::<L>(&codes, &used);
        let r = key.get_lifetime();
        if total <= 63 {
            assert!(r as u128 == spec_total_leaves(&hs) - c as u128, "remaining lifetime == number of leaves - counter");
        } else {
            assert!(r >= 1, "tall keys are never reported exhausted");
        }
        kani::cover!(total <= 63 && c > 0, "exact range reachable");
        kani::cover!(total > 63 || L < 3, "tall range reachable");
    }
    macro_rules! lifetime_harness {
        ($name:ident, $l:expr) => {
            #[kani::proof]
            #[kani::stub(zeroize::optimization_barrier, no_barrier)]
            #[kani::stub(<[u8; 32] as tinyvec::Array>::default, fast_default)]
            #[kani::unwind(50)]
            fn $name() {
                check_lifetime::<$l>();
            }
        };
    }
    // @h name=c13_lifetime_l1 props=C13,C05 tier=quick kind=proved cfg=w8 funcs=HssPrivateKey::get_lifetime;LmsParameter::number_of_lm_ots_keys contract="get_lifetime == N - c for every counter and every height list of length 1"
    lifetime_harness!(c13_lifetime_l1, 1);
    // @h name=c13_lifetime_l2 props=C13,C05 tier=quick kind=proved cfg=w8 funcs=HssPrivateKey::get_lifetime contract="same, length 2"
    lifetime_harness!(c13_lifetime_l2, 2);
    // @h name=c13_lifetime_l3 props=C13,C05 tier=quick kind=proved cfg=w8 funcs=HssPrivateKey::get_lifetime contract="same, length 3 (total height up to 75: no arithmetic failure)"
    lifetime_harness!(c13_lifetime_l3, 3);
    // @h name=c13_lifetime_l4 props=C13,C05 tier=thorough kind=proved cfg=w8 funcs=HssPrivateKey::get_lifetime contract="same, length 4"
    lifetime_harness!(c13_lifetime_l4, 4);
    // @h name=c13_lifetime_l5 props=C13,C05 tier=thorough kind=proved cfg=w8 funcs=HssPrivateKey::get_lifetime contract="same, length 5"
    lifetime_harness!(c13_lifetime_l5, 5);
    // @h name=c13_lifetime_l8 props=C13,C05 tier=thorough kind=proved cfg=w8 funcs=HssPrivateKey::get_lifetime contract="same, length 8"
    lifetime_harness!(c13_lifetime_l8, 8);
}
