// ---- injected by /verif (insert-only) ----
#[cfg(kani)]
pub(crate) mod kani_verif {
    extern crate std;
    use super::*;
    use crate::hss::reference_impl_private_key::kani_verif::make_hss_key;
    use crate::kani_support::*;

    // ------------------------------------------------------------------ HssPrivateKey::get_lifetime
    /// contract (C13/C05): for a well-formed expanded key of counter c (bottom level used = digit, upper levels
    /// used = digit + 1, exactly what HssPrivateKey::from leaves behind) the remaining lifetime is N - c when
    /// sum(h) <= 63; for taller keys no arithmetic failure.
    fn check_lifetime<const L: usize>() {
        let mut codes = [0u8; L];
        let mut hs = [0u32; L];
        let mut i = 0;
        while i < L {
            codes[i] = any_lms_code(true);
            hs[i] = spec_height_of_lms_code(codes[i]).unwrap();
            i += 1;
        }
        let total = spec_total_height(&hs);
        let c: u64 = kani::any();
        if total <= 63 {
            kani::assume((c as u128) < spec_total_leaves(&hs));
        }
        let mut used = [0u32; L];
        i = 0;
        while i < L {
            used[i] = spec_digit(c, &hs, i) + if i + 1 < L { 1 } else { 0 };
            i += 1;
        }
        let key = make_hss_key::<L>(&codes, &used);
        let r = key.get_lifetime();
        if total <= 63 {
            assert!(r as u128 == spec_total_leaves(&hs) - c as u128, "remaining lifetime == number of leaves - counter");
        } else {
            assert!(r >= 1, "tall keys are never reported exhausted");
        }
        kani::cover!(total <= 63 && c > 0, "exact range reachable");
        kani::cover!(total > 63 || L < 3, "tall range reachable");
    }
    macro_rules! lifetime_harness {
        ($name:ident, $l:expr) => {
            #[kani::proof]
            #[kani::stub(zeroize::optimization_barrier, no_barrier)]
            #[kani::stub(<[u8; 32] as tinyvec::Array>::default, fast_default)]
            #[kani::unwind(50)]
            fn $name() {
                check_lifetime::<$l>();
            }
        };
    }
    // @h name=c13_lifetime_l1 props=C13,C05 tier=quick kind=proved cfg=w8 funcs=HssPrivateKey::get_lifetime;LmsParameter::number_of_lm_ots_keys contract="get_lifetime == N - c for every counter and every height list of length 1"
    lifetime_harness!(c13_lifetime_l1, 1);
    // @h name=c13_lifetime_l2 props=C13,C05! tier=quick kind=proved cfg=w8 funcs=HssPrivateKey::get_lifetime contract="same, length 2"
    lifetime_harness!(c13_lifetime_l2, 2);
    // @h name=c13_lifetime_l3 props=C13,C05! tier=quick kind=proved cfg=w8 funcs=HssPrivateKey::get_lifetime contract="same, length 3 (total height up to 75: no arithmetic failure)"
    lifetime_harness!(c13_lifetime_l3, 3);
    // @h name=c13_lifetime_l4 props=C13,C05 tier=extended kind=proved cfg=w8 funcs=HssPrivateKey::get_lifetime contract="same, length 4"
    lifetime_harness!(c13_lifetime_l4, 4);
    // @h name=c13_lifetime_l5 props=C13,C05 tier=extended kind=proved cfg=w8 funcs=HssPrivateKey::get_lifetime contract="same, length 5"
    lifetime_harness!(c13_lifetime_l5, 5);
    // @h name=c13_lifetime_l8 props=C13,C05 tier=extended kind=proved cfg=w8 funcs=HssPrivateKey::get_lifetime contract="same, length 8"
    lifetime_harness!(c13_lifetime_l8, 8);

    // ================================================================== HssPrivateKey::from: wiring of the levels (C03 e/f, C07, C01)
    use crate::constants::{ILEN, MAX_HASH_SIZE};
    use crate::hasher::sha256::Sha256_128;
    use crate::hss::parameter::HssParameter;
    use crate::hss::reference_impl_private_key::{CompressedParameterSet, CompressedUsedLeafsIndexes, Seed, SeedAndLmsTreeIdentifier};
    use crate::lms::LmsKeyPair;
    use crate::LmsAlgorithm;
    use core::sync::atomic::{AtomicU8, AtomicUsize, Ordering};

    type HF = Sha256_128;
    const NF: usize = 16;
    const MAXL: usize = 8;

    // ---- contract stubs: each logs its arguments per call and returns fresh unconstrained material
    static ROOT_OUT: [AtomicU8; 32] = [const { AtomicU8::new(0) }; 32];
    pub fn stub_root_seed<H: HashChain>(_this: &ReferenceImplPrivateKey<H>) -> SeedAndLmsTreeIdentifier<H> {
        let mut r = SeedAndLmsTreeIdentifier::<H>::default();
        let s: [u8; 16] = kani::any();
        let id: [u8; 16] = kani::any();
        r.seed.as_mut_slice()[..16].copy_from_slice(&s);
        r.lms_tree_identifier = id;
        let mut i = 0;
        while i < 16 {
            ROOT_OUT[i].store(s[i], Ordering::Relaxed);
            ROOT_OUT[16 + i].store(id[i], Ordering::Relaxed);
            i += 1;
        }
        r
    }
    static CHILD_CALLS: AtomicUsize = AtomicUsize::new(0);
    static CHILD_LOG: [AtomicU8; MAXL * 72] = [const { AtomicU8::new(0) }; MAXL * 72]; // parent seed16, parent I16, q4 | out seed16, out I16, pad
    pub fn stub_child_seed<H: HashChain>(parent_seed: &SeedAndLmsTreeIdentifier<H>, parent_lms_leaf_identifier: &u32) -> SeedAndLmsTreeIdentifier<H> {
        let k = CHILD_CALLS.fetch_add(1, Ordering::Relaxed);
        assert!(k < MAXL, "harness sizing");
        let s: [u8; 16] = kani::any();
        let id: [u8; 16] = kani::any();
        let q = parent_lms_leaf_identifier.to_be_bytes();
        let mut i = 0;
        while i < 16 {
            CHILD_LOG[k * 72 + i].store(parent_seed.seed.as_slice()[i], Ordering::Relaxed);
            CHILD_LOG[k * 72 + 16 + i].store(parent_seed.lms_tree_identifier[i], Ordering::Relaxed);
            CHILD_LOG[k * 72 + 36 + i].store(s[i], Ordering::Relaxed);
            CHILD_LOG[k * 72 + 52 + i].store(id[i], Ordering::Relaxed);
            i += 1;
        }
        i = 0;
        while i < 4 {
            CHILD_LOG[k * 72 + 32 + i].store(q[i], Ordering::Relaxed);
            i += 1;
        }
        let mut r = SeedAndLmsTreeIdentifier::<H>::default();
        r.seed.as_mut_slice()[..16].copy_from_slice(&s);
        r.lms_tree_identifier = id;
        r
    }
    static RND_CALLS: AtomicUsize = AtomicUsize::new(0);
    static RND_LOG: [AtomicU8; MAXL * 52] = [const { AtomicU8::new(0) }; MAXL * 52]; // seed16, I16, q4, out16
    pub fn stub_rnd<H: HashChain>(child_seed: &SeedAndLmsTreeIdentifier<H>, parent_lms_leaf_identifier: &u32) -> ArrayVec<[u8; MAX_HASH_SIZE]> {
        let k = RND_CALLS.fetch_add(1, Ordering::Relaxed);
        assert!(k < MAXL, "harness sizing");
        let c: [u8; 32] = kani::any();
        let q = parent_lms_leaf_identifier.to_be_bytes();
        let mut i = 0;
        while i < 16 {
            RND_LOG[k * 52 + i].store(child_seed.seed.as_slice()[i], Ordering::Relaxed);
            RND_LOG[k * 52 + 16 + i].store(child_seed.lms_tree_identifier[i], Ordering::Relaxed);
            RND_LOG[k * 52 + 36 + i].store(c[i], Ordering::Relaxed);
            i += 1;
        }
        i = 0;
        while i < 4 {
            RND_LOG[k * 52 + 32 + i].store(q[i], Ordering::Relaxed);
            i += 1;
        }
        ArrayVec::from_array_len(c, H::OUTPUT_SIZE as usize)
    }
    static KP_CALLS: AtomicUsize = AtomicUsize::new(0);
    static KP_LOG: [AtomicU8; MAXL * 56] = [const { AtomicU8::new(0) }; MAXL * 56]; // seed16, I16, used4, lmstype1, otstype1, pad2, pubkey16
    pub fn stub_key_pair<H: HashChain>(
        seed: &SeedAndLmsTreeIdentifier<H>,
        parameter: &HssParameter<H>,
        used_leafs_index: &u32,
        aux_data: &mut Option<MutableExpandedAuxData>,
    ) -> LmsKeyPair<H> {
        let k = KP_CALLS.fetch_add(1, Ordering::Relaxed);
        assert!(k < MAXL, "harness sizing");
        assert!(aux_data.is_none(), "trees generated here get no aux data");
        let pk: [u8; 32] = kani::any();
        let u = used_leafs_index.to_be_bytes();
        let mut i = 0;
        while i < 16 {
            KP_LOG[k * 56 + i].store(seed.seed.as_slice()[i], Ordering::Relaxed);
            KP_LOG[k * 56 + 16 + i].store(seed.lms_tree_identifier[i], Ordering::Relaxed);
            KP_LOG[k * 56 + 40 + i].store(pk[i], Ordering::Relaxed);
            i += 1;
        }
        i = 0;
        while i < 4 {
            KP_LOG[k * 56 + 32 + i].store(u[i], Ordering::Relaxed);
            i += 1;
        }
        KP_LOG[k * 56 + 36].store(parameter.get_lms_parameter().get_type_id() as u8, Ordering::Relaxed);
        KP_LOG[k * 56 + 37].store(parameter.get_lmots_parameter().get_type_id() as u8, Ordering::Relaxed);
        let private_key = LmsPrivateKey::new(seed.seed.clone(), seed.lms_tree_identifier, *used_leafs_index,
            *parameter.get_lmots_parameter(), *parameter.get_lms_parameter());
        let mut public_key = LmsPublicKey::<H>::default();
        public_key.key = ArrayVec::from_array_len(pk, H::OUTPUT_SIZE as usize);
        public_key.lms_tree_identifier = seed.lms_tree_identifier;
        public_key.lmots_parameter = *parameter.get_lmots_parameter();
        public_key.lms_parameter = *parameter.get_lms_parameter();
        LmsKeyPair { private_key, public_key }
    }
    static SG_CALLS: AtomicUsize = AtomicUsize::new(0);
    static SG_LOG: [AtomicU8; MAXL * 96] = [const { AtomicU8::new(0) }; MAXL * 96]; // I16, used4, rnd16, msglen1, pad3, msg56
    pub fn stub_sign<H: HashChain>(
        lms_private_key: &mut LmsPrivateKey<H>,
        message: &[u8],
        signature_randomizer: &ArrayVec<[u8; MAX_HASH_SIZE]>,
        _aux_data: &mut Option<MutableExpandedAuxData>,
    ) -> Result<LmsSignature<H>, ()> {
        let k = SG_CALLS.fetch_add(1, Ordering::Relaxed);
        assert!(k < MAXL, "harness sizing");
        assert!(message.len() <= 56, "harness sizing");
        let u = lms_private_key.used_leafs_index.to_be_bytes();
        let mut i = 0;
        while i < 16 {
            SG_LOG[k * 96 + i].store(lms_private_key.lms_tree_identifier[i], Ordering::Relaxed);
            SG_LOG[k * 96 + 20 + i].store(signature_randomizer[i], Ordering::Relaxed);
            i += 1;
        }
        i = 0;
        while i < 4 {
            SG_LOG[k * 96 + 16 + i].store(u[i], Ordering::Relaxed);
            i += 1;
        }
        SG_LOG[k * 96 + 36].store(message.len() as u8, Ordering::Relaxed);
        i = 0;
        while i < message.len() {
            SG_LOG[k * 96 + 40 + i].store(message[i], Ordering::Relaxed);
            i += 1;
        }
        if lms_private_key.used_leafs_index as usize >= lms_private_key.lms_parameter.number_of_lm_ots_keys() {
            return Err(());
        }
        let mut s = LmsSignature::<H>::default();
        s.lms_leaf_identifier = u;
        s.lms_parameter = lms_private_key.lms_parameter;
        s.lmots_signature.signature_randomizer = *signature_randomizer;
        lms_private_key.used_leafs_index += 1;
        Ok(s)
    }
    fn lg(a: &[AtomicU8], off: usize, n: usize) -> [u8; 56] {
        let mut b = [0u8; 56];
        let mut i = 0;
        while i < n {
            b[i] = a[off + i].load(Ordering::Relaxed);
            i += 1;
        }
        b
    }

    fn check_from<const L: usize>(fixed_codes: Option<[u8; L]>) {
        check_from_c::<L>(fixed_codes, None)
    }
    fn check_from_c<const L: usize>(fixed_codes: Option<[u8; L]>, fixed_counter: Option<u64>) {
        CHILD_CALLS.store(0, Ordering::Relaxed);
        RND_CALLS.store(0, Ordering::Relaxed);
        KP_CALLS.store(0, Ordering::Relaxed);
        SG_CALLS.store(0, Ordering::Relaxed);
        let mut codes = [0u8; L];
        let mut hs = [0u32; L];
        let mut pb = [0xffu8; MAX_ALLOWED_HSS_LEVELS];
        let mut i = 0;
        while i < L {
            // heights: fixed by the harness (quick tier: concrete mixed heights keep CBMC's formula small) or symbolic
            codes[i] = match fixed_codes { Some(f) => f[i], None => any_lms_code(true) };
            hs[i] = spec_height_of_lms_code(codes[i]).unwrap();
            pb[i] = (codes[i] << 4) | 4;
            i += 1;
        }
        let c: u64 = match fixed_counter { Some(v) => v, None => kani::any() };
        kani::assume(spec_total_height(&hs) > 63 || (c as u128) < spec_total_leaves(&hs));
        let mut rk = ReferenceImplPrivateKey::<HF>::default();
        rk.compressed_used_leafs_indexes = CompressedUsedLeafsIndexes::new(c);
        rk.compressed_parameter = crate::hss::reference_impl_private_key::kani_verif::cps_from_array(pb);
        // with aux data of the top tree present: it must be dropped once the first child public key has been signed, so that
        // no later authentication path (other trees) is ever built from the top tree's cache (C10)
        let mut aux = Some(MutableExpandedAuxData::default());
        let r = HssPrivateKey::<HF>::from(&rk, &mut aux);
        assert!(aux.is_none() == (L > 1), "aux data is dropped after the top tree's signature (kept only for single-level keys)");
        assert!(r.is_ok(), "a key inside its lifetime always expands");
        let k = r.unwrap();
        assert!(k.private_key.len() == L && k.public_key.len() == L - 1 && k.signatures.len() == L - 1, "L trees, L-1 signed child keys");
        assert!(CHILD_CALLS.load(Ordering::Relaxed) == L - 1 && RND_CALLS.load(Ordering::Relaxed) == L - 1
            && KP_CALLS.load(Ordering::Relaxed) == L - 1 && SG_CALLS.load(Ordering::Relaxed) == L - 1, "one derivation, key generation and signature per child level");
        // level 0: the root tree
        let root = lg(&ROOT_OUT, 0, 32);
        assert!(k.private_key[0].seed.as_slice() == &root[..16] && k.private_key[0].lms_tree_identifier[..] == root[16..32], "level 0 is the root (seed, I)");
        let mut cur_seed = [0u8; 16];
        let mut cur_id = [0u8; 16];
        cur_seed.copy_from_slice(&root[..16]);
        cur_id.copy_from_slice(&root[16..32]);
        i = 1;
        while i < L {
            let d_parent = spec_digit(c, &hs, i - 1);
            let ch = lg(&CHILD_LOG, (i - 1) * 72, 72 - 16);
            let ch_out = lg(&CHILD_LOG, (i - 1) * 72 + 36, 32);
            assert!(ch[..16] == cur_seed && ch[16..32] == cur_id, "child i derived from the (seed, I) of level i-1");
            assert!(ch[32..36] == d_parent.to_be_bytes(), "and from the parent's current leaf = digit i-1 of the counter");
            cur_seed.copy_from_slice(&ch_out[..16]);
            cur_id.copy_from_slice(&ch_out[16..32]);
            let kp = lg(&KP_LOG, (i - 1) * 56, 56);
            assert!(kp[..16] == cur_seed && kp[16..32] == cur_id, "tree i generated from the derived (seed, I)");
            assert!(kp[32..36] == spec_digit(c, &hs, i).to_be_bytes(), "with current leaf = digit i of the counter");
            assert!(kp[36] == codes[i] && kp[37] == 4, "and the parameters of level i");
            let rn = lg(&RND_LOG, (i - 1) * 52, 52);
            assert!(rn[32..36] == d_parent.to_be_bytes(), "randomizer of the signature over child i derived for the parent's leaf");
            assert!(rn[..16] == cur_seed && rn[16..32] == cur_id, "from the derived (seed, I) of level i (what the library does; deterministic)");
            let sg = lg(&SG_LOG, (i - 1) * 96, 40);
            assert!(sg[16..20] == d_parent.to_be_bytes(), "child public key signed with the parent's leaf digit i-1");
            assert!(sg[20..36] == rn[36..52], "using that randomizer");
            assert!(k.private_key[i - 1].lms_tree_identifier[..] == sg[..16], "by the tree of level i-1");
            // signed content = serialised public key of level i
            let pkb = k.public_key[i - 1].to_binary_representation();
            assert!(sg[36] as usize == pkb.len(), "signed content is the whole serialised child public key");
            let m = lg(&SG_LOG, (i - 1) * 96 + 40, 40);
            assert!(m[..pkb.len()] == *pkb.as_slice(), "signed content == u32(lms type)||u32(lmots type)||I||T[1] of level i");
            assert!(k.public_key[i - 1].key.as_slice() == &kp[40..56] && k.public_key[i - 1].lms_tree_identifier == cur_id, "stored child public key is the generated one");
            assert!(k.signatures[i - 1].lms_leaf_identifier == d_parent.to_be_bytes(), "stored signature is the one just made");
            assert!(k.private_key[i].seed.as_slice() == &cur_seed[..] && k.private_key[i].lms_tree_identifier == cur_id, "level i private key is the generated one");
            i += 1;
        }
        // used-leaf vector left behind: digit + 1 on the levels that signed a child, digit on the bottom level
        i = 0;
        while i < L {
            let want = spec_digit(c, &hs, i) + if i + 1 < L { 1 } else { 0 };
            assert!(k.private_key[i].used_leafs_index == want, "used leaves: digit (+1 above the bottom)");
            i += 1;
        }
        kani::cover!(fixed_counter.is_some() || c > 1000, "non-trivial counter reachable");
    }

    macro_rules! from_harness {
        ($name:ident, $l:expr, $codes:expr) => {
            #[kani::proof]
            #[kani::stub(zeroize::optimization_barrier, no_barrier)]
            #[kani::stub(<[u8; 32] as tinyvec::Array>::default, fast_default)]
            #[kani::stub(crate::hss::reference_impl_private_key::ReferenceImplPrivateKey::generate_root_seed_and_lms_tree_identifier, stub_root_seed)]
            #[kani::stub(crate::hss::reference_impl_private_key::generate_child_seed_and_lms_tree_identifier, stub_child_seed)]
            #[kani::stub(crate::hss::reference_impl_private_key::generate_signature_randomizer, stub_rnd)]
            #[kani::stub(crate::lms::generate_key_pair, stub_key_pair)]
            #[kani::stub(crate::lms::signing::LmsSignature::sign, stub_sign)]
            #[kani::stub(crate::hss::reference_impl_private_key::CompressedUsedLeafsIndexes::to, crate::hss::reference_impl_private_key::kani_verif::contract_to)]
            #[kani::unwind(60)]
            fn $name() {
                check_from::<$l>($codes);
            }
        };
    }
    // @h name=c03_from_l2_pts props=C03,C07,C01,C05,C13,C10 tier=thorough kind=bounded cfg=L2w8 timeout=900 funcs=HssPrivateKey::from note="L=2, heights (10,5), counters 33 and 2^15-1 only (the all-counters harness c03_from_l2 is in the thorough tier; unbounded: Verus unit v8_hss)" contract="same contract as c03_from_l2 at two concrete counters: quick guard for the loop header of HssPrivateKey::from, which the Verus unit v8_hss rewrites to an index loop"
    #[kani::proof]
    #[kani::stub(zeroize::optimization_barrier, no_barrier)]
    #[kani::stub(<[u8; 32] as tinyvec::Array>::default, fast_default)]
    #[kani::stub(crate::hss::reference_impl_private_key::ReferenceImplPrivateKey::generate_root_seed_and_lms_tree_identifier, stub_root_seed)]
    #[kani::stub(crate::hss::reference_impl_private_key::generate_child_seed_and_lms_tree_identifier, stub_child_seed)]
    #[kani::stub(crate::hss::reference_impl_private_key::generate_signature_randomizer, stub_rnd)]
    #[kani::stub(crate::lms::generate_key_pair, stub_key_pair)]
    #[kani::stub(crate::lms::signing::LmsSignature::sign, stub_sign)]
    #[kani::stub(crate::hss::reference_impl_private_key::CompressedUsedLeafsIndexes::to, crate::hss::reference_impl_private_key::kani_verif::contract_to)]
    #[kani::unwind(60)]
    fn c03_from_l2_pts() {
        check_from_c::<2>(Some([6u8, 5u8]), Some(33));
        check_from_c::<2>(Some([6u8, 5u8]), Some(32767));
    }
    // @h name=c03_from_l1 props=C03,C07,C01,C05,C13,C10 tier=quick kind=proved cfg=L2w8 timeout=2400 funcs=HssPrivateKey::from contract="expanded key of counter c: level i tree = derive(level i-1 (seed,I), digit i-1), current leaf = digit i; child public key i signed by level i-1 leaf digit i-1 over its serialisation; used-leaf vector = digits (+1 above bottom); aux dropped after the top tree's signature; every counter; callees by contract (incl. CompressedUsedLeafsIndexes::to, proved in c13_to_*); L=1, height 10"
    from_harness!(c03_from_l1, 1, Some([6u8]));
    // @h name=c03_from_l2 props=C03,C07,C01,C05,C13,C10 tier=extended kind=proved cfg=L2w8 timeout=2400 funcs=HssPrivateKey::from contract="same, L=2, heights (10,5): every counter 0..2^15-1"
    from_harness!(c03_from_l2, 2, Some([6u8, 5u8]));
    // @h name=c03_from_l2_mixed props=C03,C07,C01,C05,C13,C10 tier=extended kind=proved cfg=L2w8 timeout=2400 funcs=HssPrivateKey::from contract="same, L=2, heights (2,25)"
    from_harness!(c03_from_l2_mixed, 2, Some([1u8, 9u8]));
    // @h name=c03_from_l2_sym props=C03,C07,C01,C05,C13,C10 tier=extended kind=proved cfg=L2w8 timeout=7200 funcs=HssPrivateKey::from contract="same, L=2, all height pairs (symbolic)"
    from_harness!(c03_from_l2_sym, 2, None);
    // @h name=c03_from_l3 props=C03,C07,C01,C05,C13,C10 tier=extended kind=proved cfg=L3w8 timeout=7200 funcs=HssPrivateKey::from contract="same, L=3, heights (5,10,5)"
    from_harness!(c03_from_l3, 3, Some([5u8, 6u8, 5u8]));
    // @h name=c03_from_l8 props=C03,C07,C01,C05,C13,C10 tier=extended kind=proved cfg=w8 timeout=14400 funcs=HssPrivateKey::from contract="same, L=8, heights (5,5,5,5,5,5,5,10)"
    from_harness!(c03_from_l8, 8, Some([5u8, 5, 5, 5, 5, 5, 5, 6]));

    // ================================================================== C10/C11: aux front end (get_expanded_aux_data)
    /// total for every buffer; a fresh buffer (first byte 0) is shrunk to the hash-sigs length, zeroed and marked, and only
    /// then used as a cache; an in-use buffer is only accepted through the MAC check of hss_expand_aux_data
    fn check_aux_front<const CAPB: usize>() {
        let mut store: [u8; CAPB] = kani::any();
        let len: usize = kani::any();
        kani::assume(len <= CAPB);
        let first_zero = len == 0 || store[0] == 0;
        let mut rk = ReferenceImplPrivateKey::<HF>::default();
        let sb: [u8; 16] = kani::any();
        rk.seed.as_mut_slice().copy_from_slice(&sb);
        let top = LmsAlgorithm::from(any_lms_code(true) as u32).construct_parameter::<HF>().unwrap();
        let mut slice: &mut [u8] = &mut store[..len];
        let used = hss_is_aux_data_used(slice);
        assert!(used == !first_zero, "in use iff non-empty and first byte non-zero");
        let want_len = if len == 0 { 0 } else { hss_get_aux_data_len(len, top) };
        let want_level = hss_optimal_aux_level(want_len, top, None);
        let r = HssPrivateKey::<HF>::get_expanded_aux_data(Some(&mut slice), &rk, &top, used);
        if len == 0 {
            assert!(r.is_none(), "empty buffer: no aux data, no panic");
        } else if !used {
            match r {
                None => assert!(want_level == 0, "too small for any level: ignored"),
                Some(e) => {
                    assert!(e.level == want_level && want_level != 0, "level word of the hash-sigs rule");
                    let mut lv = 0;
                    while lv <= crate::constants::MAX_TREE_HEIGHT {
                        if let Some(d) = e.data[lv].as_ref() {
                            assert!(d.iter().all(|b| *b == 0), "a fresh buffer is zeroed before it is used as cache");
                        }
                        lv += 1;
                    }
                }
            }
        }
        kani::cover!(CAPB <= 40 || (len > 40 && !used), "fresh buffer with a cached level reachable");
        kani::cover!(used, "in-use buffer reachable");
    }
    /// fresh buffer of one concrete length that is large enough to cache the leaf level of a 4-leaf top tree (n = 16:
    /// 4 + 64 + 16 = 84 bytes used of 100): shrunk, every cached byte zero before use, marker = level word
    fn check_aux_front_fresh_h2() {
        let mut store: [u8; 100] = kani::any();
        store[0] = 0;
        let mut rk = ReferenceImplPrivateKey::<HF>::default();
        let sb: [u8; 16] = kani::any();
        rk.seed.as_mut_slice().copy_from_slice(&sb);
        let top = LmsAlgorithm::LmsH2.construct_parameter::<HF>().unwrap();
        let mut slice: &mut [u8] = &mut store[..];
        let r = HssPrivateKey::<HF>::get_expanded_aux_data(Some(&mut slice), &rk, &top, false);
        let e = r.unwrap();
        assert!(e.level == 0x8000_0004, "hash-sigs rule: level 2 (the leaves) of the 4-leaf tree is cached");
        let d = e.data[2].as_ref().unwrap();
        assert!(d.len() == 64 && d.iter().all(|b| *b == 0), "a fresh buffer is zeroed before it is used as cache (stale contents never read back)");
        assert!(e.data[0].is_none() && e.data[1].is_none(), "no other level");
        drop(e);
        assert!(slice.len() == 84, "shrunk to the used length");
        kani::cover!(true, "reachable");
    }
    // @h name=c10_aux_front_n16 props=C10,C11 tier=extended kind=proved cfg=w8 timeout=2400 funcs=HssPrivateKey::get_expanded_aux_data;hss_is_aux_data_used;hss_get_aux_data_len;hss_store_aux_marker contract="every buffer of length 0..100 and every content: no panic; fresh buffers are shrunk, zeroed and marked before use (stale contents never read back); in-use buffers go through the MAC check (compute_hmac by contract)"
    #[kani::proof]
    #[kani::stub(zeroize::optimization_barrier, no_barrier)]
    #[kani::stub(<[u8; 32] as tinyvec::Array>::default, fast_default)]
    #[kani::stub(crate::hss::aux::compute_seed_derive, crate::hss::aux::kani_verif::stub_seed_derive)]
    #[kani::stub(crate::hss::aux::compute_hmac, crate::hss::aux::kani_verif::stub_hmac)]
    #[kani::unwind(110)]
    fn c10_aux_front_n16() {
        check_aux_front::<100>();
    }
    // @h name=c10_aux_front_24 props=C10,C11 tier=extended kind=proved cfg=w8 timeout=2400 funcs=HssPrivateKey::get_expanded_aux_data;hss_is_aux_data_used;hss_get_aux_data_len;hss_store_aux_marker contract="same contract for every buffer of length 0..24 (too small for any level: fresh buffers shrink to the marker byte and are ignored; in-use ones go through the MAC check)"
    #[kani::proof]
    #[kani::stub(zeroize::optimization_barrier, no_barrier)]
    #[kani::stub(<[u8; 32] as tinyvec::Array>::default, fast_default)]
    #[kani::stub(crate::hss::aux::compute_seed_derive, crate::hss::aux::kani_verif::stub_seed_derive)]
    #[kani::stub(crate::hss::aux::compute_hmac, crate::hss::aux::kani_verif::stub_hmac)]
    #[kani::unwind(30)]
    fn c10_aux_front_24() {
        check_aux_front::<24>();
    }
    // @h name=c10_aux_front_fresh_h2 props=C10,C11,C09 tier=extended kind=bounded cfg=w8 timeout=2400 funcs=HssPrivateKey::get_expanded_aux_data;hss_expand_aux_data;hss_store_aux_marker note="one concrete buffer length (100) and top tree (4 leaves, n = 16); all lengths 0..100 and all top trees: c10_aux_front_n16 (thorough)" contract="a fresh 100-byte buffer with arbitrary stale contents: shrunk to 84, level 2 cached, every cached byte zero before use, marker = level word"
    #[kani::proof]
    #[kani::stub(zeroize::optimization_barrier, no_barrier)]
    #[kani::stub(<[u8; 32] as tinyvec::Array>::default, fast_default)]
    #[kani::unwind(110)]
    fn c10_aux_front_fresh_h2() {
        check_aux_front_fresh_h2();
    }


    // ---- the same front end with hss_expand_aux_data replaced by a contract stub (its body: c10_expand_untrusted_*). The real
    // expander is iterator-heavy and makes the harnesses above take > 15 minutes; what get_expanded_aux_data itself does -
    // shrink, zero, mark, hand over - is checked here on the buffer that reaches the expander.
    use core::sync::atomic::{AtomicU8 as A8, AtomicUsize as AU, Ordering as Ord2};
    static EX_CALLS: AU = AU::new(0);
    static EX_LEN: AU = AU::new(0);
    static EX_SEED: AU = AU::new(0); // 0 = None, 1 = Some(equal to the key's seed), 2 = Some(other)
    static EX_BUF: [A8; 100] = [const { A8::new(0) }; 100];
    static EX_WANT_SEED: [A8; 16] = [const { A8::new(0) }; 16];
    pub fn stub_expand<'a, H: HashChain>(aux_data: Option<&'a mut [u8]>, seed: Option<&'a [u8]>) -> Option<MutableExpandedAuxData<'a>> {
        EX_CALLS.fetch_add(1, Ord2::Relaxed);
        let b = aux_data.unwrap();
        EX_LEN.store(b.len(), Ord2::Relaxed);
        let mut i = 0;
        while i < b.len() && i < 100 {
            EX_BUF[i].store(b[i], Ord2::Relaxed);
            i += 1;
        }
        let st = match seed {
            None => 0,
            Some(sd) => {
                let mut same = sd.len() == 16;
                let mut j = 0;
                while j < 16 && j < sd.len() {
                    same = same && sd[j] == EX_WANT_SEED[j].load(Ord2::Relaxed);
                    j += 1;
                }
                if same { 1 } else { 2 }
            }
        };
        EX_SEED.store(st, Ord2::Relaxed);
        None
    }
    fn check_aux_front_stubbed() {
        EX_CALLS.store(0, Ord2::Relaxed);
        let mut store: [u8; 100] = kani::any();
        let copy = store;
        let len: usize = kani::any();
        kani::assume(len <= 100);
        let first_zero = len == 0 || store[0] == 0;
        let mut rk = ReferenceImplPrivateKey::<HF>::default();
        let sb: [u8; 16] = kani::any();
        rk.seed.as_mut_slice().copy_from_slice(&sb);
        let mut i = 0;
        while i < 16 {
            EX_WANT_SEED[i].store(sb[i], Ord2::Relaxed);
            i += 1;
        }
        let top = LmsAlgorithm::from(any_lms_code(true) as u32).construct_parameter::<HF>().unwrap();
        let mut slice: &mut [u8] = &mut store[..len];
        let used = hss_is_aux_data_used(slice);
        assert!(used == !first_zero, "in use iff non-empty and first byte non-zero");
        let want_len = if len == 0 { 0 } else { hss_get_aux_data_len(len, top) };
        let want_level = hss_optimal_aux_level(want_len, top, None);
        let r = HssPrivateKey::<HF>::get_expanded_aux_data(Some(&mut slice), &rk, &top, used);
        assert!(r.is_none(), "(stubbed expander returns None)");
        let calls = EX_CALLS.load(Ord2::Relaxed);
        if len == 0 {
            assert!(calls == 0, "empty buffer: no aux data, nothing handed on, no panic");
        } else if used {
            assert!(calls == 1 && EX_SEED.load(Ord2::Relaxed) == 1 && EX_LEN.load(Ord2::Relaxed) == len, "an in-use buffer goes to the expander whole, together with the key's seed (MAC check)");
            let k: usize = kani::any();
            kani::assume(k < len);
            assert!(EX_BUF[k].load(Ord2::Relaxed) == copy[k], "... and unmodified");
        } else {
            assert!(calls == 1 && EX_SEED.load(Ord2::Relaxed) == 0, "a fresh buffer is handed on without MAC check");
            assert!(EX_LEN.load(Ord2::Relaxed) == want_len && slice.len() == want_len, "shrunk to the hash-sigs length (the caller's slice too)");
            if want_level == 0 {
                assert!(want_len == 1 && EX_BUF[0].load(Ord2::Relaxed) == 0, "too small for any level: one marker byte 'not in use'");
            } else {
                let w = want_level.to_be_bytes();
                assert!(EX_BUF[0].load(Ord2::Relaxed) == w[0] && EX_BUF[1].load(Ord2::Relaxed) == w[1]
                    && EX_BUF[2].load(Ord2::Relaxed) == w[2] && EX_BUF[3].load(Ord2::Relaxed) == w[3], "marker = level word");
                let k: usize = kani::any();
                kani::assume(k >= 4 && k < want_len);
                assert!(EX_BUF[k].load(Ord2::Relaxed) == 0, "every byte behind the level word is zero before the buffer is used as cache (stale contents never read back)");
            }
        }
        kani::cover!(len > 40 && !used && want_level != 0, "fresh buffer with a cached level reachable");
        kani::cover!(len > 0 && !used && want_level == 0, "fresh buffer too small for any level reachable");
        kani::cover!(used, "in-use buffer reachable");
    }
    // @h name=c10_aux_front_stubbed props=C10,C11!,C09! tier=quick kind=proved cfg=w8 timeout=1200 funcs=HssPrivateKey::get_expanded_aux_data;hss_is_aux_data_used;hss_get_aux_data_len;hss_store_aux_marker contract="every buffer of length 0..100, every content, every top tree: no panic; in-use buffers reach the expander whole and unmodified together with the seed; fresh buffers are shrunk to the hash-sigs length, marked with the level word and every byte behind it is zero when they reach the expander (expander by contract stub)"
    #[kani::proof]
    #[kani::stub(zeroize::optimization_barrier, no_barrier)]
    #[kani::stub(<[u8; 32] as tinyvec::Array>::default, fast_default)]
    #[kani::stub(crate::hss::aux::hss_expand_aux_data, stub_expand)]
    #[kani::unwind(110)]
    fn c10_aux_front_stubbed() {
        check_aux_front_stubbed();
    }

    // ================================================================== C11: key generation front end
    use crate::hss::hss_keygen;
    /// parameter lists of length 0..10: error for 0 and for more than MAX_ALLOWED_HSS_LEVELS levels, never a panic;
    /// accepted lists give a key blob with the documented layout (tree generation by contract)
    fn check_keygen_len<const L: usize>() {
        let mut params = [HssParameter::<HF>::new(crate::LmotsAlgorithm::LmotsW8, crate::LmsAlgorithm::LmsH5); L];
        let mut i = 0;
        while i < L {
            params[i] = HssParameter::<HF>::new(crate::LmotsAlgorithm::LmotsW8, LmsAlgorithm::from(any_lms_code(true) as u32));
            i += 1;
        }
        let sb: [u8; 16] = kani::any();
        let mut seed = Seed::<HF>::default();
        seed.as_mut_slice().copy_from_slice(&sb);
        let r = hss_keygen::<HF>(&params, &seed, None);
        if L == 0 || L > MAX_ALLOWED_HSS_LEVELS {
            assert!(r.is_err(), "empty and over-long parameter lists are refused with an error");
        } else {
            let was_ok = r.is_ok();
            assert!(was_ok, "lists within the limits are accepted");
            let (sk, vk) = r.unwrap();
            assert!(sk.as_slice().len() == 32 && sk.as_slice()[..8] == [0u8; 8] && sk.as_slice()[16..] == sb, "private key blob: counter 0, parameter bytes, seed");
            assert!(vk.as_slice().len() == 4 + 24 + 16 && vk.as_slice()[..4] == (L as u32).to_be_bytes(), "public key: u32(L) || LMS public key");
            assert!(vk.as_slice()[4..8] == params[0].get_lms_parameter().get_type_id().to_be_bytes()
                && vk.as_slice()[8..12] == params[0].get_lmots_parameter().get_type_id().to_be_bytes(), "type codes of the top level");
        }
        kani::cover!(true, "reachable");
    }
    macro_rules! keygen_harness {
        ($name:ident, $l:expr) => {
            #[kani::proof]
            #[kani::stub(zeroize::optimization_barrier, no_barrier)]
            #[kani::stub(<[u8; 32] as tinyvec::Array>::default, fast_default)]
            #[kani::stub(crate::hss::reference_impl_private_key::ReferenceImplPrivateKey::generate_root_seed_and_lms_tree_identifier, stub_root_seed)]
            #[kani::stub(crate::lms::generate_key_pair, stub_key_pair)]
            #[kani::unwind(40)]
            fn $name() {
                check_keygen_len::<$l>();
            }
        };
    }
    // @h name=c11_keygen_len0 props=C11,C08 tier=quick kind=proved cfg=w8 timeout=1800 funcs=hss_keygen;ReferenceImplPrivateKey::generate;CompressedParameterSet::from;HssPublicKey::from;HssPublicKey::to_binary_representation;SigningKey::from_bytes;VerifyingKey::from_bytes contract="keygen with an empty parameter list: Err, no panic"
    keygen_harness!(c11_keygen_len0, 0);
    // @h name=c11_keygen_len1 props=C11,C08! tier=quick kind=proved cfg=w8 timeout=1800 funcs=hss_keygen;HssPublicKey::from;HssPublicKey::to_binary_representation contract="1 level: Ok; private blob = be64(0)||param bytes||seed; public key = u32(L)||u32(lms)||u32(lmots)||I||T[1] (tree generation by contract)"
    keygen_harness!(c11_keygen_len1, 1);
    // @h name=c11_keygen_len8 props=C11,C08 tier=thorough kind=proved cfg=w8 timeout=1800 funcs=hss_keygen contract="8 levels: Ok"
    keygen_harness!(c11_keygen_len8, 8);
    // @h name=c11_keygen_len9 props=C11,C14! tier=quick kind=proved cfg=w8 timeout=1800 funcs=hss_keygen;CompressedParameterSet::from contract="9 levels: Err, no panic"
    keygen_harness!(c11_keygen_len9, 9);
    // @h name=c11_keygen_len10 props=C11,C14 tier=extended kind=proved cfg=w8 timeout=1800 funcs=hss_keygen;CompressedParameterSet::from contract="10 levels: Err, no panic"
    keygen_harness!(c11_keygen_len10, 10);
    // @h name=c11_keygen_len4 props=C11,C08 tier=extended kind=proved cfg=w8 timeout=1800 funcs=hss_keygen contract="4 levels: Ok"
    keygen_harness!(c11_keygen_len4, 4);

    // ================================================================== C14: parameter lists against the build limits
    /// keygen accepts exactly the lists within (level count, per-level max height, per-level min Winternitz) of the build
    fn check_limits<const L: usize>() {
        let mut params = [HssParameter::<HF>::new(crate::LmotsAlgorithm::LmotsW8, crate::LmsAlgorithm::LmsH5); L];
        let mut within = L >= 1 && L <= MAX_ALLOWED_HSS_LEVELS;
        let mut i = 0;
        while i < L {
            let lc = any_lms_code(true);
            let wc = any_lmots_code();
            params[i] = HssParameter::<HF>::new(crate::LmotsAlgorithm::from(wc as u32), LmsAlgorithm::from(lc as u32));
            if i < MAX_ALLOWED_HSS_LEVELS {
                within = within && spec_height_of_lms_code(lc).unwrap() as usize <= crate::constants::TREE_HEIGHTS[i]
                    && spec_w_of_lmots_code(wc).unwrap() as usize >= crate::constants::WINTERNITZ_PARAMETERS[i];
            }
            i += 1;
        }
        let seed = Seed::<HF>::default();
        let r = hss_keygen::<HF>(&params, &seed, None);
        assert!(r.is_ok() == within, "accepted iff the list is within the limits of this build; otherwise an error, never a panic");
        // covers are written as `!applicable || condition` (a list longer than the level limit is never accepted)
        kani::cover!(L > MAX_ALLOWED_HSS_LEVELS || within, "accepted list reachable");
        kani::cover!(!within, "refused list reachable");
    }
    macro_rules! limits_harness {
        ($name:ident, $l:expr) => {
            #[kani::proof]
            #[kani::stub(zeroize::optimization_barrier, no_barrier)]
            #[kani::stub(<[u8; 32] as tinyvec::Array>::default, fast_default)]
            #[kani::stub(crate::hss::reference_impl_private_key::ReferenceImplPrivateKey::generate_root_seed_and_lms_tree_identifier, stub_root_seed)]
            #[kani::stub(crate::lms::generate_key_pair, stub_key_pair)]
            #[kani::unwind(40)]
            fn $name() {
                check_limits::<$l>();
            }
        };
    }
    // @h name=c14_limits_L2small_l1 props=C14,C11 tier=quick kind=proved cfg=L2small timeout=1800 funcs=hss_keygen;CompressedParameterSet::from;CompressedParameterSet::to contract="build with limits 2 levels, heights (10,5), W (4,8): keygen Ok iff every level is within its height / Winternitz limit; all 1-level lists"
    limits_harness!(c14_limits_L2small_l1, 1);
    // @h name=c14_limits_L2small_l2 props=C14,C11 tier=quick kind=proved cfg=L2small timeout=1800 funcs=hss_keygen;CompressedParameterSet::from;CompressedParameterSet::to contract="same, all 2-level lists"
    limits_harness!(c14_limits_L2small_l2, 2);
    // @h name=c14_limits_L2small_l3 props=C14,C11! tier=quick kind=proved cfg=L2small timeout=1800 funcs=hss_keygen;CompressedParameterSet::from contract="same, 3-level lists (beyond the level limit): Err"
    limits_harness!(c14_limits_L2small_l3, 3);
    // @h name=c14_limits_default_l2 props=C14,C11 tier=extended kind=proved cfg=w8 timeout=1800 funcs=hss_keygen contract="W8-minimum build, 2-level lists"
    limits_harness!(c14_limits_default_l2, 2);

    // ------------------------------------------------------------------ InMemoryHssPublicKey::new (C02 / C06)
    /// Kani pair of the Verus contract in v2_parsers (`Some <=> rfc_hss_pub_ok`): RFC 8554 section 6.1, the HSS public key is
    /// u32(L) || u32(lms type) || u32(lmots type) || I (16) || T[1] (n) and nothing else; total, for every byte string <= 64 bytes.
    fn check_hss_pub_exact<HF: HashChain>() {
        let buf: [u8; 64] = kani::any();
        let len: usize = kani::any();
        kani::assume(len <= 64);
        let n = HF::OUTPUT_SIZE as usize;
        let r = InMemoryHssPublicKey::<HF>::new(&buf[..len]);
        if len != 4 + 4 + 4 + 16 + n {
            assert!(r.is_none(), "a public key that is shorter or longer than u32(L) || LMS public key is refused");
        }
        if let Some(ref k) = r {
            assert!(k.level as u32 == u32::from_be_bytes([buf[0], buf[1], buf[2], buf[3]]), "level word");
            let lms = u32::from_be_bytes([buf[4], buf[5], buf[6], buf[7]]);
            let ots = u32::from_be_bytes([buf[8], buf[9], buf[10], buf[11]]);
            assert!((lms >= 5 && lms <= 9) || lms == 1, "LMS type code of the table (1 = the 4-leaf hook height)");
            assert!(ots >= 1 && ots <= 4, "LM-OTS type code of the table");
        }
        kani::cover!(r.is_some(), "a well-formed key is accepted");
        kani::cover!(len == 4 + 4 + 4 + 16 + n + 1, "one byte too long reachable");
    }
    macro_rules! hss_pub_harness {
        ($name:ident, $h:ty) => {
            #[kani::proof]
            #[kani::stub(zeroize::optimization_barrier, no_barrier)]
            #[kani::stub(<[u8; 32] as tinyvec::Array>::default, fast_default)]
            #[kani::unwind(70)]
            fn $name() {
                check_hss_pub_exact::<$h>();
            }
        };
    }
    // @h name=c02_hss_pub_exact_n16 props=C02,C06! tier=quick kind=proved cfg=default timeout=900 funcs=InMemoryHssPublicKey::new;InMemoryLmsPublicKey::new contract="Some only for exactly 44 bytes with table type codes; total; every byte string of length 0..64; n=16"
    hss_pub_harness!(c02_hss_pub_exact_n16, crate::hasher::sha256::Sha256_128);
    // @h name=c02_hss_pub_exact_n24 props=C02,C06! tier=quick kind=proved cfg=default timeout=900 funcs=InMemoryHssPublicKey::new;InMemoryLmsPublicKey::new contract="same, exactly 52 bytes; n=24"
    hss_pub_harness!(c02_hss_pub_exact_n24, crate::hasher::sha256::Sha256_192);
    // @h name=c02_hss_pub_exact_n32 props=C02,C06! tier=quick kind=proved cfg=default timeout=900 funcs=InMemoryHssPublicKey::new;InMemoryLmsPublicKey::new contract="same, exactly 60 bytes; n=32"
    hss_pub_harness!(c02_hss_pub_exact_n32, crate::hasher::sha256::Sha256_256);
}
