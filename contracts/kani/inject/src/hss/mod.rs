// ---- injected by /verif (insert-only) ----
#[cfg(kani)]
pub(crate) mod kani_verif {
    extern crate std;
    use super::*;
    use crate::constants::{ILEN, MAX_ALLOWED_HSS_LEVELS, MAX_HSS_SIGNATURE_LENGTH};
    use crate::hasher::sha256::Sha256_128;
    use crate::hss::aux::MutableExpandedAuxData;
    use crate::kani_support::*;
    use crate::lms::definitions::LmsPrivateKey;
    use crate::lms::signing::LmsSignature;
    use core::sync::atomic::{AtomicU32, Ordering};

    type H = Sha256_128;
    const N: usize = 16;
    const KEYLEN: usize = 8 + 8 + N;

    // ------------------------------------------------------------------ contract stubs for the callees of hss_sign_core
    // Each stub returns an arbitrary outcome (Ok with a structurally valid value, or Err); counters record the call order.
    static FROM_CALLS: AtomicU32 = AtomicU32::new(0);
    static SIGN_CALLS: AtomicU32 = AtomicU32::new(0);
    static CB_CALLS_AT_SIGN: AtomicU32 = AtomicU32::new(0);
    static CB_CALLS: AtomicU32 = AtomicU32::new(0);

    /// HssPrivateKey::from: Err, or a key with one LmsPrivateKey per level of the blob's parameter list
    /// (this is all hss_sign_core and ReferenceImplPrivateKey::increment read from it)
    pub fn stub_hss_from<H: HashChain>(
        private_key: &ReferenceImplPrivateKey<H>,
        _aux_data: &mut Option<MutableExpandedAuxData>,
    ) -> Result<HssPrivateKey<H>, ()> {
        FROM_CALLS.fetch_add(1, Ordering::Relaxed);
        let parameters = private_key.compressed_parameter.to::<H>()?;
        if kani::any() {
            return Err(());
        }
        // used-leaf vector exactly as the contract of HssPrivateKey::from states it (c03_from_*): digit i of the counter,
        // plus one on the levels that have signed a child public key
        let digits = crate::hss::reference_impl_private_key::kani_verif::contract_to(&private_key.compressed_used_leafs_indexes, &parameters);
        let levels = parameters.len();
        let mut k: HssPrivateKey<H> = Default::default();
        for (i, p) in parameters.iter().enumerate() {
            let used = digits[i] + if i + 1 < levels { 1 } else { 0 };
            if used as usize > p.get_lms_parameter().number_of_lm_ots_keys() {
                return Err(()); // a counter beyond the key's lifetime cannot be expanded
            }
            k.private_key.push(LmsPrivateKey::new(
                Seed::default(),
                [0u8; ILEN],
                used,
                *p.get_lmots_parameter(),
                *p.get_lms_parameter(),
            ));
        }
        Ok(k)
    }

    pub fn stub_hss_sign<H: HashChain>(
        private_key: &mut HssPrivateKey<H>,
        _message: Option<&[u8]>,
        _message_mut: Option<&mut [u8]>,
        _aux_data: &mut Option<MutableExpandedAuxData>,
    ) -> Result<HssSignature<H>, ()> {
        SIGN_CALLS.fetch_add(1, Ordering::Relaxed);
        CB_CALLS_AT_SIGN.store(CB_CALLS.load(Ordering::Relaxed), Ordering::Relaxed);
        if kani::any() {
            return Err(());
        }
        Ok(HssSignature {
            level: private_key.get_length() - 1,
            signed_public_keys: ArrayVec::new(),
            signature: LmsSignature::default(),
        })
    }

    pub fn stub_sig_to_bytes<H: HashChain>(_s: &HssSignature<H>) -> ArrayVec<[u8; MAX_HSS_SIGNATURE_LENGTH]> {
        let mut r = ArrayVec::new();
        r.push(kani::any());
        r.push(kani::any());
        r
    }

    // ------------------------------------------------------------------ specification of the successor key blob
    /// heights of the parameter bytes (hash-sigs nibble packing): None if the list is empty, holds an invalid code, has more
    /// levels than this build supports, or a level beyond the build's height / Winternitz limits (C11, C14)
    fn spec_blob_heights(pb: &[u8; 8]) -> Option<([u32; 8], usize)> {
        let mut hs = [0u32; 8];
        let mut j = MAX_ALLOWED_HSS_LEVELS;
        while j < 8 {
            if pb[j] != 0xff {
                return None;
            }
            j += 1;
        }
        let mut n = 0usize;
        while n < MAX_ALLOWED_HSS_LEVELS {
            if pb[n] == 0xff {
                break;
            }
            let h = spec_height_of_lms_code(pb[n] >> 4);
            let w = spec_w_of_lmots_code(pb[n] & 0x0f);
            if h.is_none() || w.is_none() {
                return None;
            }
            if h.unwrap() as usize > crate::constants::TREE_HEIGHTS[n] || (w.unwrap() as usize) < crate::constants::WINTERNITZ_PARAMETERS[n] {
                return None;
            }
            hs[n] = h.unwrap();
            n += 1;
        }
        if n == 0 {
            None
        } else {
            Some((hs, n))
        }
    }

    fn spec_successor(blob: &[u8; KEYLEN]) -> Option<[u8; KEYLEN]> {
        let mut pb = [0u8; 8];
        pb.copy_from_slice(&blob[8..16]);
        let (hs, n) = spec_blob_heights(&pb)?;
        let mut cb = [0u8; 8];
        cb.copy_from_slice(&blob[..8]);
        let c = u64::from_be_bytes(cb);
        let last = spec_last_counter(&hs[..n]);
        let mut out = [0u8; KEYLEN];
        if c < last {
            out.copy_from_slice(blob);
            out[..8].copy_from_slice(&(c + 1).to_be_bytes());
        } else {
            let mut i = 8;
            while i < 16 {
                out[i] = 0xff;
                i += 1;
            }
        }
        Some(out)
    }

    fn reset_counters() {
        FROM_CALLS.store(0, Ordering::Relaxed);
        SIGN_CALLS.store(0, Ordering::Relaxed);
        CB_CALLS.store(0, Ordering::Relaxed);
        CB_CALLS_AT_SIGN.store(0, Ordering::Relaxed);
    }

    /// Partition of all 2^64 parameter-byte strings (complete; M = MAX_ALLOWED_HSS_LEVELS of the build):
    ///   shape L in 1..=M : bytes 0..L valid codes within the build limits, then the end marker (if L < 8); accepted
    ///   shape 0          : byte 0 is the end marker (empty list: wiped / exhausted key)
    ///   shape 10 + i     : bytes 0..i valid, byte i neither end marker nor an acceptable code (invalid or beyond limits)
    ///   shape 20         : a byte at position >= M is not the end marker (more levels than the build supports)
    /// bytes not mentioned are arbitrary.
    fn any_blob(shape: usize) -> [u8; KEYLEN] {
        any_blob_with(shape, None)
    }
    /// `first`: Some(b) fixes the first parameter byte (one harness per valid byte; together they cover what `None` covers)
    fn any_blob_with(shape: usize, first: Option<u8>) -> [u8; KEYLEN] {
        let mut blob: [u8; KEYLEN] = kani::any();
        let valid = if shape <= 8 { shape } else if shape == 20 { 1 } else { shape - 10 };
        let mut i = 0;
        while i < valid {
            let b = match (i, first) {
                (0, Some(f)) => f,
                _ => (any_lms_code(true) << 4) | any_lmots_code(),
            };
            kani::assume(spec_height_of_lms_code(b >> 4).unwrap() as usize <= crate::constants::TREE_HEIGHTS[i]);
            kani::assume(spec_w_of_lmots_code(b & 0x0f).unwrap() as usize >= crate::constants::WINTERNITZ_PARAMETERS[i]);
            blob[8 + i] = b;
            i += 1;
        }
        if shape <= 8 || shape == 20 {
            if valid < 8 {
                blob[8 + valid] = 0xff;
            }
        } else {
            let b: u8 = kani::any();
            kani::assume(b != 0xff);
            let h = spec_height_of_lms_code(b >> 4);
            let w = spec_w_of_lmots_code(b & 0x0f);
            kani::assume(h.is_none() || w.is_none()
                || h.unwrap() as usize > crate::constants::TREE_HEIGHTS[valid]
                || (w.unwrap() as usize) < crate::constants::WINTERNITZ_PARAMETERS[valid]);
            blob[8 + valid] = b;
        }
        if shape != 20 {
            let mut j = MAX_ALLOWED_HSS_LEVELS;
            while j < 8 {
                blob[8 + j] = 0xff;
                j += 1;
            }
        } else {
            let j: usize = kani::any();
            kani::assume(j >= MAX_ALLOWED_HSS_LEVELS && j < 8);
            kani::assume(blob[8 + j] != 0xff);
        }
        blob
    }

    /// contract of hss_sign_core / hss_sign (C04, C11): see the asserts
    fn check_sign_protocol(via_hss_sign: bool, shape: usize) {
        check_sign_protocol_with(via_hss_sign, shape, None)
    }
    fn check_sign_protocol_with(via_hss_sign: bool, shape: usize, first: Option<u8>) {
        reset_counters();
        let blob = any_blob_with(shape, first);
        let msg: [u8; 3] = kani::any();
        let cb_ok: bool = kani::any();
        let mut seen = [0u8; KEYLEN];
        let mut seen_len = 0usize;
        let mut cb = |k: &[u8]| -> Result<(), ()> {
            CB_CALLS.fetch_add(1, Ordering::Relaxed);
            seen_len = k.len();
            if k.len() == KEYLEN {
                seen.copy_from_slice(k);
            }
            if cb_ok {
                Ok(())
            } else {
                Err(())
            }
        };
        let r = if via_hss_sign {
            hss_sign::<H>(&msg, &blob, &mut cb, None)
        } else {
            hss_sign_core::<H>(Some(&msg), None, &blob, &mut cb, None)
        };
        let calls = CB_CALLS.load(Ordering::Relaxed);
        assert!(calls <= 1, "callback invoked at most once per call");
        if r.is_ok() {
            assert!(calls == 1, "a signature is released only after the callback was invoked");
            assert!(cb_ok, "a signature is released only if the callback reported success");
            assert!(SIGN_CALLS.load(Ordering::Relaxed) == 1 && CB_CALLS_AT_SIGN.load(Ordering::Relaxed) == 0,
                "the callback runs after signing, exactly one signing operation");
        }
        if calls == 1 {
            let succ = spec_successor(&blob);
            assert!(succ.is_some(), "callback never invoked for a malformed key");
            assert!(seen_len == KEYLEN, "callback receives a complete key of the same length");
            assert!(seen == succ.unwrap(), "callback receives exactly the successor key (counter+1 or the wiped key)");
            assert!(SIGN_CALLS.load(Ordering::Relaxed) == 1, "callback only after a signature was produced");
            if !cb_ok {
                assert!(r.is_err(), "callback failure => no signature");
            }
        }
        if spec_successor(&blob).is_none() {
            assert!(r.is_err() && calls == 0, "malformed key: error, callback not invoked");
            assert!(SIGN_CALLS.load(Ordering::Relaxed) == 0, "malformed key: nothing signed");
        }
        let valid_shape = shape >= 1 && shape <= 8;
        if valid_shape {
            assert!(spec_successor(&blob).is_some(), "harness sanity: valid shapes are accepted by the specification");
        } else {
            assert!(spec_successor(&blob).is_none(), "harness sanity: malformed shapes are rejected by the specification");
        }
        // reachability guards (trivially satisfied for the shapes they do not apply to)
        kani::cover!(!valid_shape || r.is_ok(), "success path reachable");
        kani::cover!(!valid_shape || (calls == 1 && !cb_ok), "rejecting callback reachable");
        kani::cover!(!valid_shape || calls == 0, "internal failure path reachable");
        kani::cover!(!valid_shape || (calls == 1 && seen[8] == 0xff && seen[16] == 0), "exhaustion (wiped successor) reachable");
        kani::cover!(valid_shape || r.is_err(), "malformed key reachable");
    }

    macro_rules! protocol_harness {
        ($name:ident, $via:expr, $shape:expr) => {
            #[kani::proof]
            #[kani::stub(zeroize::optimization_barrier, no_barrier)]
            #[kani::stub(<[u8; 32] as tinyvec::Array>::default, fast_default)]
            #[kani::stub(crate::hss::definitions::HssPrivateKey::from, stub_hss_from)]
            #[kani::stub(crate::hss::signing::HssSignature::sign, stub_hss_sign)]
            #[kani::stub(crate::hss::signing::HssSignature::to_binary_representation, stub_sig_to_bytes)]
            #[kani::stub(crate::hss::reference_impl_private_key::ReferenceImplPrivateKey::increment, crate::hss::reference_impl_private_key::kani_verif::contract_outer_increment)]
            #[kani::unwind(36)]
            fn $name() {
                check_sign_protocol($via, $shape);
            }
        };
    }
    // ---- quick tier: 2-level build (smallest structures); thorough tier: default 8-level capacity (config w8)
    // @h name=c04_core_l1_L1h5 props=C04,C11,C05,C03 tier=quick kind=proved cfg=L1h5w8 timeout=1500 kani_args="--no-memory-safety-checks --no-undefined-function-checks" funcs=hss_sign_core;ReferenceImplPrivateKey::from_binary_representation;ReferenceImplPrivateKey::to_binary_representation;CompressedParameterSet::to contract="the same protocol contract in the smallest build (1 level, height <= 5, W8; signature buffer 1.3 kB instead of 3.9 kB): every key blob with a valid 1-level list, every counter, seed, message, callback verdict. The control flow of hss_sign_core does not depend on the build limits; the 2-level build runs in the thorough tier (c04_core_l1)"
    protocol_harness!(c04_core_l1_L1h5, false, 1);
    // @h name=c04_core_l1 props=C04,C11,C05,C03 tier=thorough kind=proved cfg=L2w8 timeout=1500 kani_args="--no-memory-safety-checks --no-undefined-function-checks" funcs=hss_sign_core;ReferenceImplPrivateKey::from_binary_representation;ReferenceImplPrivateKey::to_binary_representation;CompressedParameterSet::to contract="(callee ReferenceImplPrivateKey::increment by its contract, proved in c05_outer_inc_*) Ok => callback invoked exactly once, after signing, returned Ok, argument == successor blob (counter+1 / wiped); callback Err => Err; any failure => callback not invoked; every key blob with a valid 1-level list"
    protocol_harness!(c04_core_l1, false, 1);
    // @h name=c04_core_l2 props=C04,C11,C05,C03 tier=extended kind=proved cfg=L2w8 timeout=1500 kani_args="--no-memory-safety-checks --no-undefined-function-checks" funcs=hss_sign_core contract="same, valid 2-level lists"
    protocol_harness!(c04_core_l2, false, 2);
    // @h name=c04_core_empty props=C04,C11!,C05! tier=quick kind=proved cfg=L2w8 timeout=1500 kani_args="--no-memory-safety-checks --no-undefined-function-checks" funcs=hss_sign_core;CompressedParameterSet::to contract="empty parameter list (wiped / exhausted key): Err, callback not invoked, nothing signed"
    protocol_harness!(c04_core_empty, false, 0);
    // @h name=c04_core_bad0 props=C04,C11!,C14! tier=quick kind=proved cfg=L2w8 timeout=1500 kani_args="--no-memory-safety-checks --no-undefined-function-checks" funcs=hss_sign_core;CompressedParameterSet::to contract="parameter byte 0 invalid or beyond the build limits: Err, no panic, callback not invoked"
    protocol_harness!(c04_core_bad0, false, 10);
    // @h name=c04_core_bad1 props=C04,C11,C14 tier=thorough kind=proved cfg=L2w8 timeout=1500 kani_args="--no-memory-safety-checks --no-undefined-function-checks" funcs=hss_sign_core;CompressedParameterSet::to contract="parameter byte 1 invalid or beyond the build limits"
    protocol_harness!(c04_core_bad1, false, 11);
    // @h name=c04_core_bad1_L2small props=C04,C14!,C11 tier=quick kind=proved cfg=L2small timeout=1500 kani_args="--no-memory-safety-checks --no-undefined-function-checks" funcs=hss_sign_core;CompressedParameterSet::to contract="build with different limits per level (heights (10,5), W (4,8)): parameter byte 1 invalid or beyond the limits OF LEVEL 1 (e.g. height 10, allowed on level 0 only): Err, callback not invoked, nothing signed"
    protocol_harness!(c04_core_bad1_L2small, false, 11);
    // @h name=c04_core_toomany props=C04,C11!,C14! tier=quick kind=proved cfg=L2w8 timeout=1500 kani_args="--no-memory-safety-checks --no-undefined-function-checks" funcs=hss_sign_core;ReferenceImplPrivateKey::from_binary_representation contract="more levels than the build supports: Err, callback not invoked"
    protocol_harness!(c04_core_toomany, false, 20);
    // @h name=c04_hss_sign_l1 props=C04,C09 tier=extended kind=proved cfg=L2w8 timeout=1500 kani_args="--no-memory-safety-checks --no-undefined-function-checks" funcs=hss_sign contract="same protocol through the public byte-level entry point hss_sign, 1 level"
    protocol_harness!(c04_hss_sign_l1, true, 1);
    // @h name=c04_w8_l1 props=C04,C11,C05,C03 tier=extended kind=proved cfg=w8 timeout=3000 kani_args="--no-memory-safety-checks --no-undefined-function-checks" funcs=hss_sign_core contract="default capacity (8 levels): valid 1-level lists"
    protocol_harness!(c04_w8_l1, false, 1);
    // @h name=c04_w8_l3 props=C04,C11,C05,C03 tier=extended kind=proved cfg=w8 timeout=3000 kani_args="--no-memory-safety-checks --no-undefined-function-checks" funcs=hss_sign_core contract="default capacity: valid 3-level lists"
    protocol_harness!(c04_w8_l3, false, 3);
    // @h name=c04_w8_l8 props=C04,C11,C05,C03 tier=extended kind=proved cfg=w8 timeout=3000 kani_args="--no-memory-safety-checks --no-undefined-function-checks" funcs=hss_sign_core contract="default capacity: valid 8-level lists"
    protocol_harness!(c04_w8_l8, false, 8);
    // @h name=c04_w8_bad4 props=C04,C11 tier=extended kind=proved cfg=w8 timeout=3000 kani_args="--no-memory-safety-checks --no-undefined-function-checks" funcs=hss_sign_core contract="default capacity: invalid parameter byte at position 4"
    protocol_harness!(c04_w8_bad4, false, 14);
    // @h name=c04_w8_bad7 props=C04,C11 tier=extended kind=proved cfg=w8 timeout=3000 kani_args="--no-memory-safety-checks --no-undefined-function-checks" funcs=hss_sign_core contract="default capacity: invalid parameter byte at position 7"
    protocol_harness!(c04_w8_bad7, false, 17);

    // ------------------------------------------------------------------ C11/C04: key blobs of the wrong length
    // @h props=C11,C04! tier=quick kind=proved cfg=L2w8 timeout=1200 funcs=hss_sign_core;ReferenceImplPrivateKey::from_binary_representation;SigningKey::get_lifetime contract="key blobs of length 0, 1, 31, 33, 48, 64 (n=16: valid length is 32) with arbitrary content: Err, no panic, callback not invoked; get_lifetime Err"
    #[kani::proof]
    #[kani::stub(zeroize::optimization_barrier, no_barrier)]
    #[kani::stub(<[u8; 32] as tinyvec::Array>::default, fast_default)]
    #[kani::unwind(36)]
    fn c11_badlen() {
        reset_counters();
        let buf: [u8; 64] = kani::any();
        let lens = [0usize, 1, 31, 33, 48, 64];
        let mut i = 0;
        while i < lens.len() {
            let mut cb = |_k: &[u8]| -> Result<(), ()> {
                CB_CALLS.fetch_add(1, Ordering::Relaxed);
                Ok(())
            };
            let r = hss_sign_core::<H>(Some(&[1, 2, 3]), None, &buf[..lens[i]], &mut cb, None);
            assert!(r.is_err() && CB_CALLS.load(Ordering::Relaxed) == 0, "wrong length: Err, callback not invoked");
            let sk = SigningKey::<H>::from_bytes(&buf[..lens[i]]);
            if let Ok(sk) = sk {
                assert!(sk.get_lifetime().is_err(), "lifetime query on a truncated / padded key fails");
            } else {
                assert!(lens[i] > crate::constants::REF_IMPL_MAX_PRIVATE_KEY_SIZE, "from_bytes only refuses over-long keys");
            }
            i += 1;
        }
        kani::cover!(true, "reachable");
    }

    // ------------------------------------------------------------------ C09/C04: the in-memory signing key uses the same path
    static HS_CALLS: AtomicU32 = AtomicU32::new(0);
    static HS_KEY: [core::sync::atomic::AtomicU8; 32] = [const { core::sync::atomic::AtomicU8::new(0) }; 32];
    static HS_NEW: [core::sync::atomic::AtomicU8; 32] = [const { core::sync::atomic::AtomicU8::new(0) }; 32];
    static HS_CB: AtomicU32 = AtomicU32::new(0);
    /// contract stub of hss_sign (its protocol is what c04_* prove): may or may not call the callback once with a new
    /// 32-byte key, and returns Ok only if it did and the callback accepted
    pub fn stub_hss_sign_fn<H: HashChain>(
        message: &[u8],
        private_key: &[u8],
        private_key_update_function: &mut dyn FnMut(&[u8]) -> Result<(), ()>,
        aux_data: Option<&mut &mut [u8]>,
    ) -> Result<Signature, Error> {
        HS_CALLS.fetch_add(1, Ordering::Relaxed);
        assert!(message.len() == 3 && aux_data.is_none(), "message and aux data passed through");
        let mut i = 0;
        while i < 32 && i < private_key.len() {
            HS_KEY[i].store(private_key[i], Ordering::Relaxed);
            i += 1;
        }
        if kani::any() {
            return Err(Error::new());
        }
        let newk: [u8; 32] = kani::any();
        i = 0;
        while i < 32 {
            HS_NEW[i].store(newk[i], Ordering::Relaxed);
            i += 1;
        }
        HS_CB.store(1, Ordering::Relaxed);
        private_key_update_function(&newk).map_err(|_| Error::new())?;
        Signature::from_bytes_verbose(&[9u8, 9], 0)
    }
    // @h props=C09,C04!,C03! tier=quick kind=proved cfg=L2w8 timeout=1200 funcs=SigningKey::try_sign_with_aux;SigningKey::try_sign contract="try_sign(msg) == hss_sign(msg, self.bytes, copy-back, None): passes the current key bytes, and afterwards self.bytes is exactly the callback's argument if the callback ran, unchanged otherwise; every key content"
    #[kani::proof]
    #[kani::stub(zeroize::optimization_barrier, no_barrier)]
    #[kani::stub(<[u8; 32] as tinyvec::Array>::default, fast_default)]
    #[kani::stub(crate::hss::hss_sign, stub_hss_sign_fn)]
    #[kani::unwind(70)]
    fn c09_try_sign() {
        HS_CALLS.store(0, Ordering::Relaxed);
        HS_CB.store(0, Ordering::Relaxed);
        let kb: [u8; 32] = kani::any();
        let mut sk = SigningKey::<H>::from_bytes(&kb).unwrap();
        let msg: [u8; 3] = kani::any();
        let r = sk.try_sign(&msg);
        assert!(HS_CALLS.load(Ordering::Relaxed) == 1, "one call of the byte-level signer");
        let mut i = 0;
        while i < 32 {
            assert!(HS_KEY[i].load(Ordering::Relaxed) == kb[i], "the byte-level signer sees exactly the in-memory key");
            if HS_CB.load(Ordering::Relaxed) == 1 {
                assert!(sk.as_slice()[i] == HS_NEW[i].load(Ordering::Relaxed), "the whole successor key is copied back, not only the counter");
            } else {
                assert!(sk.as_slice()[i] == kb[i], "no callback => key unchanged");
            }
            i += 1;
        }
        assert!(r.is_ok() == (HS_CB.load(Ordering::Relaxed) == 1), "result is the byte-level signer's result");
        kani::cover!(r.is_ok(), "success reachable");
        kani::cover!(r.is_err(), "failure reachable");
    }

    // ------------------------------------------------------------------ C06: byte-level constructors of the public objects
    // @h props=C06 tier=quick kind=proved cfg=L2w8 timeout=1200 funcs=Signature::from_bytes;Signature::from_bytes_verbose;VerifyingKey::from_bytes;SigningKey::from_bytes contract="from_bytes: Ok with identical bytes iff the input fits the fixed capacity, Err otherwise, never a panic (lengths 0, 5, capacity, capacity+1)"
    #[kani::proof]
    #[kani::stub(<[u8; 32] as tinyvec::Array>::default, fast_default)]
    #[kani::unwind(70)]
    fn c06_from_bytes() {
        use crate::constants::{MAX_HSS_PUBLIC_KEY_LENGTH, MAX_HSS_SIGNATURE_LENGTH};
        use crate::signature::Signature as SigTrait;
        let buf = [7u8; MAX_HSS_SIGNATURE_LENGTH + 1];
        assert!(Signature::from_bytes(&buf[..0]).unwrap().as_ref().len() == 0, "empty");
        assert!(Signature::from_bytes(&buf[..5]).unwrap().as_ref() == &buf[..5], "short");
        assert!(Signature::from_bytes(&buf[..MAX_HSS_SIGNATURE_LENGTH]).is_ok(), "exactly the capacity");
        assert!(Signature::from_bytes(&buf[..]).is_err(), "one byte more than the capacity: Err");
        let pb: [u8; MAX_HSS_PUBLIC_KEY_LENGTH + 1] = kani::any();
        assert!(VerifyingKey::<H>::from_bytes(&pb[..0]).is_ok() && VerifyingKey::<H>::from_bytes(&pb[..MAX_HSS_PUBLIC_KEY_LENGTH]).unwrap().as_slice() == &pb[..MAX_HSS_PUBLIC_KEY_LENGTH], "verifying key up to capacity");
        assert!(VerifyingKey::<H>::from_bytes(&pb[..]).is_err(), "verifying key: over-long input is an error");
        kani::cover!(true, "reachable");
    }

    // ------------------------------------------------------------------ C15: fast-verify front end
    #[cfg(feature = "fast_verify")]
    static CORE_CALLS: AtomicU32 = AtomicU32::new(0);
    #[cfg(feature = "fast_verify")]
    static CORE_ARGS_OK: AtomicU32 = AtomicU32::new(0);
    #[cfg(feature = "fast_verify")]
    pub fn stub_sign_core<H: HashChain>(
        message: Option<&[u8]>,
        message_mut: Option<&mut [u8]>,
        _private_key: &[u8],
        _private_key_update_function: &mut dyn FnMut(&[u8]) -> Result<(), ()>,
        _aux_data: Option<&mut &mut [u8]>,
    ) -> Result<Signature, Error> {
        CORE_CALLS.fetch_add(1, Ordering::Relaxed);
        CORE_ARGS_OK.store((message.is_none() && message_mut.is_some()) as u32, Ordering::Relaxed);
        if kani::any() {
            Err(Error::new())
        } else {
            Signature::from_bytes_verbose(&[9u8, 9], 0)
        }
    }
    #[cfg(feature = "fast_verify")]
    fn check_sign_mut<const LEN: usize>() {
        CORE_CALLS.store(0, Ordering::Relaxed);
        reset_counters();
        let mut msg: [u8; LEN] = kani::any();
        let before = msg;
        let key: [u8; 32] = kani::any();
        let mut cb = |_k: &[u8]| -> Result<(), ()> {
            CB_CALLS.fetch_add(1, Ordering::Relaxed);
            Ok(())
        };
        let r = hss_sign_mut::<H>(&mut msg, &key, &mut cb, None);
        let trailer_zero = LEN > N && before[LEN - N..].iter().all(|b| *b == 0);
        if LEN <= N || !trailer_zero {
            assert!(r.is_err(), "too short or non-zero trailer: refused");
            assert!(CORE_CALLS.load(Ordering::Relaxed) == 0 && CB_CALLS.load(Ordering::Relaxed) == 0, "nothing signed, no leaf consumed");
            assert!(msg == before, "message untouched");
        } else {
            assert!(CORE_CALLS.load(Ordering::Relaxed) == 1 && CORE_ARGS_OK.load(Ordering::Relaxed) == 1, "goes through the ordinary signing core with the mutable message");
        }
        kani::cover!(LEN <= N || trailer_zero, "accepted or too-short path reachable");
        kani::cover!(LEN <= N || !trailer_zero, "refused path reachable");
    }
    // @h props=C15 tier=quick kind=proved cfg=fastverify timeout=1500 funcs=hss_sign_mut contract="message of length <= n or with a non-zero byte in the last n bytes: Err before hss_sign_core, callback not invoked, message untouched; otherwise exactly one call of hss_sign_core(None, Some(message)); lengths 0,16,17,40 (n=16), every content"
    #[cfg(feature = "fast_verify")]
    #[kani::proof]
    #[kani::stub(<[u8; 32] as tinyvec::Array>::default, fast_default)]
    #[kani::stub(crate::hss::hss_sign_core, stub_sign_core)]
    #[kani::unwind(50)]
    fn c15_sign_mut_front() {
        check_sign_mut::<0>();
        check_sign_mut::<16>();
        check_sign_mut::<17>();
        check_sign_mut::<40>();
    }

    // ------------------------------------------------------------------ C04: the public wrapper hss_sign adds nothing to the protocol
    static CORE2_CALLS: AtomicU32 = AtomicU32::new(0);
    /// contract stub of hss_sign_core (what c04_core_* prove): at most one callback invocation, Ok only if it accepted
    pub fn stub_sign_core_protocol<H: HashChain>(
        message: Option<&[u8]>,
        message_mut: Option<&mut [u8]>,
        private_key: &[u8],
        private_key_update_function: &mut dyn FnMut(&[u8]) -> Result<(), ()>,
        _aux_data: Option<&mut &mut [u8]>,
    ) -> Result<Signature, Error> {
        CORE2_CALLS.fetch_add(1, Ordering::Relaxed);
        assert!(message.is_some() && message_mut.is_none() && private_key.len() == KEYLEN, "arguments passed through unchanged");
        if kani::any() {
            return Err(Error::new());
        }
        let newk: [u8; KEYLEN] = kani::any();
        private_key_update_function(&newk).map_err(|_| Error::new())?;
        Signature::from_bytes_verbose(&[9u8, 9], 0)
    }
    // @h props=C04,C09! tier=quick kind=proved cfg=L2w8 timeout=1200 funcs=hss_sign contract="hss_sign == hss_sign_core(Some(msg), None, ..): one call of the core, the caller's callback is invoked exactly as often as the core invokes the one it is given (never retried), Ok only if the callback accepted; core by contract"
    #[kani::proof]
    #[kani::stub(<[u8; 32] as tinyvec::Array>::default, fast_default)]
    #[kani::stub(crate::hss::hss_sign_core, stub_sign_core_protocol)]
    #[kani::unwind(40)]
    fn c04_hss_sign_wrapper() {
        CORE2_CALLS.store(0, Ordering::Relaxed);
        reset_counters();
        let blob: [u8; KEYLEN] = kani::any();
        let msg: [u8; 3] = kani::any();
        let cb_ok: bool = kani::any();
        let mut cb = |_k: &[u8]| -> Result<(), ()> {
            CB_CALLS.fetch_add(1, Ordering::Relaxed);
            if cb_ok { Ok(()) } else { Err(()) }
        };
        let r = hss_sign::<H>(&msg, &blob, &mut cb, None);
        let calls = CB_CALLS.load(Ordering::Relaxed);
        assert!(CORE2_CALLS.load(Ordering::Relaxed) == 1, "exactly one run of the signing core");
        assert!(calls <= 1, "callback never invoked more than once (no retry)");
        assert!(!r.is_ok() || (calls == 1 && cb_ok), "signature only after an accepted callback");
        assert!(!(calls == 1 && !cb_ok) || r.is_err(), "rejected callback => no signature");
        kani::cover!(r.is_ok(), "success reachable");
        kani::cover!(calls == 1 && !cb_ok, "rejection reachable");
    }

    // ------------------------------------------------------------------ C05/C13: the public lifetime query
    /// SigningKey::get_lifetime == leaves - counter for every stored key (HssPrivateKey::from by its contract, the real
    /// HssPrivateKey::get_lifetime); a wiped / exhausted key gives Err
    fn check_signing_key_lifetime<const L: usize>() {
        let mut codes = [0u8; L];
        let mut hs = [0u32; L];
        let mut blob = [0xffu8; KEYLEN];
        let mut i = 0;
        while i < L {
            codes[i] = any_lms_code(true);
            hs[i] = spec_height_of_lms_code(codes[i]).unwrap();
            blob[8 + i] = (codes[i] << 4) | 4;
            i += 1;
        }
        let c: u64 = kani::any();
        blob[..8].copy_from_slice(&c.to_be_bytes());
        let seed: [u8; N] = kani::any();
        blob[16..].copy_from_slice(&seed);
        let sk = SigningKey::<H>::from_bytes(&blob).unwrap();
        let r = sk.get_lifetime();
        let leaves = spec_total_leaves(&hs);
        if (c as u128) < leaves {
            assert!(r.is_ok() && r.unwrap() as u128 == leaves - c as u128, "remaining lifetime == product of the tree sizes - counter");
        }
        kani::cover!(c > 40, "non-trivial counter reachable");
    }
    macro_rules! sk_lifetime_harness {
        ($name:ident, $l:expr) => {
            #[kani::proof]
            #[kani::stub(zeroize::optimization_barrier, no_barrier)]
            #[kani::stub(<[u8; 32] as tinyvec::Array>::default, fast_default)]
            #[kani::stub(crate::hss::definitions::HssPrivateKey::from, stub_hss_from_ok)]
            #[kani::unwind(36)]
            fn $name() {
                check_signing_key_lifetime::<$l>();
            }
        };
    }
    /// HssPrivateKey::from by its contract (c03_from_*, Verus v8_hss), without the arbitrary-failure branch of stub_hss_from
    pub fn stub_hss_from_ok<H: HashChain>(
        private_key: &ReferenceImplPrivateKey<H>,
        _aux_data: &mut Option<MutableExpandedAuxData>,
    ) -> Result<HssPrivateKey<H>, ()> {
        let parameters = private_key.compressed_parameter.to::<H>()?;
        let digits = crate::hss::reference_impl_private_key::kani_verif::contract_to(&private_key.compressed_used_leafs_indexes, &parameters);
        let levels = parameters.len();
        let mut k: HssPrivateKey<H> = Default::default();
        for (i, p) in parameters.iter().enumerate() {
            let used = digits[i] + if i + 1 < levels { 1 } else { 0 };
            if used as usize > p.get_lms_parameter().number_of_lm_ots_keys() {
                return Err(());
            }
            k.private_key.push(LmsPrivateKey::new(Seed::default(), [0u8; ILEN], used, *p.get_lmots_parameter(), *p.get_lms_parameter()));
        }
        Ok(k)
    }
    // @h name=c05_sk_lifetime_l1 props=C05,C13!,C11 tier=quick kind=proved cfg=L2w8 timeout=900 funcs=SigningKey::get_lifetime;HssPrivateKey::get_lifetime contract="SigningKey::get_lifetime == 2^(sum h) - counter for every 1-level key blob and every counter inside the lifetime (expanded key by the contract of HssPrivateKey::from)"
    sk_lifetime_harness!(c05_sk_lifetime_l1, 1);
    // @h name=c05_sk_lifetime_l2 props=C05,C13!,C11 tier=quick kind=proved cfg=L2w8 timeout=900 funcs=SigningKey::get_lifetime;HssPrivateKey::get_lifetime contract="same, every 2-level key blob (all height pairs incl. mixed)"
    sk_lifetime_harness!(c05_sk_lifetime_l2, 2);
}
