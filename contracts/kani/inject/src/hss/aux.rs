// ---- injected by /verif (insert-only) ----
#[cfg(kani)]
pub(crate) mod kani_verif {
    use super::*;
    use crate::hasher::sha256::Sha256_128;
    use crate::kani_support::*;
    use crate::lms::parameters::LmsAlgorithm;
    use core::sync::atomic::{AtomicU8, AtomicUsize, Ordering};

    type H = Sha256_128;
    const N: usize = 16;

    /// hash-sigs hss_optimal_aux_level, written from its description: nothing if the header and MAC do not fit; otherwise
    /// greedily take levels h, h-2, h-4, .. >= 1 while n << level bytes still fit. Returns (level word, bytes used).
    fn spec_optimal(max_len: usize, h: u32, n: usize) -> (u32, usize) {
        if max_len < 4 + n {
            return (0, 1);
        }
        let mut rest = max_len - (4 + n);
        let mut word = 0u32;
        let mut level = h as i32;
        while level >= 1 {
            let need = n << level;
            if rest >= need {
                rest -= need;
                word |= 0x8000_0000 | (1u32 << level);
            }
            level -= 2;
        }
        (word, max_len - rest)
    }

    // @h props=C10,C11 tier=quick kind=proved cfg=w8 timeout=1800 funcs=hss_optimal_aux_level;hss_get_aux_data_len;hss_store_aux_marker;hss_is_aux_data_used contract="level word and used length == hash-sigs rule for every buffer length (all usize < 2^40), every tree height; marker: first byte 0 iff no level; shrink length == used length"
    #[kani::proof]
    #[kani::stub(<[u8; 32] as tinyvec::Array>::default, fast_default)]
    #[kani::unwind(30)]
    fn c10_optimal_level() {
        let code = any_lms_code(true);
        let h = spec_height_of_lms_code(code).unwrap();
        let p = LmsAlgorithm::from(code as u32).construct_parameter::<H>().unwrap();
        let max_len: usize = kani::any();
        kani::assume(max_len < (1usize << 40));
        let mut actual = 0usize;
        let w = hss_optimal_aux_level(max_len, p, Some(&mut actual));
        let (sw, sl) = spec_optimal(max_len, h, N);
        assert!(w == sw && actual == sl, "level word and used length follow the hash-sigs rule");
        assert!(hss_optimal_aux_level(max_len, p, None) == sw, "same without length output");
        let l = hss_get_aux_data_len(max_len, p);
        assert!(l == if sw == 0 { 1 } else { sl }, "shrink length");
        assert!(l <= max_len || max_len == 0, "never longer than the buffer");
        let mut hdr = [0x55u8; 4];
        hss_store_aux_marker(&mut hdr, sw);
        assert!(hss_is_aux_data_used(&hdr) == (sw != 0), "marker: in use iff some level is cached");
        if sw != 0 {
            assert!(hdr == sw.to_be_bytes(), "level word stored big-endian");
        }
        assert!(!hss_is_aux_data_used(&[]), "empty buffer is not in use (no panic)");
        kani::cover!(sw != 0 && sw.count_ones() == 4, "three levels reachable");
        kani::cover!(sw == 0 && max_len > 0, "too small buffer reachable");
    }

    // ---- contract stubs for the MAC computation (bodies checked in c10_mac_*): log arguments, return fresh values
    static KEY_OUT: [AtomicU8; 32] = [const { AtomicU8::new(0) }; 32];
    static SEED_ARG: [AtomicU8; 32] = [const { AtomicU8::new(0) }; 32];
    pub fn stub_seed_derive<H: HashChain>(seed: &[u8]) -> ArrayVec<[u8; MAX_HASH_SIZE]> {
        let k: [u8; 32] = kani::any();
        let mut i = 0;
        while i < 32 {
            KEY_OUT[i].store(k[i], Ordering::Relaxed);
            if i < seed.len() {
                SEED_ARG[i].store(seed[i], Ordering::Relaxed);
            }
            i += 1;
        }
        ArrayVec::from_array_len(k, H::OUTPUT_SIZE as usize)
    }
    static MAC_OUT: [AtomicU8; 32] = [const { AtomicU8::new(0) }; 32];
    static MAC_DATA_LEN: AtomicUsize = AtomicUsize::new(0);
    static MAC_CALLS: AtomicUsize = AtomicUsize::new(0);
    static MAC_KEY_OK: AtomicUsize = AtomicUsize::new(0);
    pub fn stub_hmac<H: HashChain>(key: &[u8], data: &[u8]) -> ArrayVec<[u8; MAX_HASH_SIZE]> {
        MAC_CALLS.fetch_add(1, Ordering::Relaxed);
        MAC_DATA_LEN.store(data.len(), Ordering::Relaxed);
        let mut ok = key.len() == H::OUTPUT_SIZE as usize;
        let mut i = 0;
        while i < key.len() && i < 32 {
            ok = ok && key[i] == KEY_OUT[i].load(Ordering::Relaxed);
            i += 1;
        }
        MAC_KEY_OK.store(ok as usize, Ordering::Relaxed);
        let m: [u8; 32] = kani::any();
        i = 0;
        while i < 32 {
            MAC_OUT[i].store(m[i], Ordering::Relaxed);
            i += 1;
        }
        ArrayVec::from_array_len(m, H::OUTPUT_SIZE as usize)
    }

    /// C10/C11: hss_expand_aux_data on an arbitrary (untrusted) buffer with a seed: total, and Some only for a buffer whose
    /// MAC field equals compute_hmac(compute_seed_derive(seed), header || cached levels)
    fn check_expand_untrusted<const CAPB: usize>() {
        MAC_CALLS.store(0, Ordering::Relaxed);
        let mut buf: [u8; CAPB] = kani::any();
        let len: usize = kani::any();
        kani::assume(len <= CAPB);
        let seed: [u8; N] = kani::any();
        let copy = buf;
        let word = if len >= 4 { u32::from_be_bytes([buf[0], buf[1], buf[2], buf[3]]) } else { 0 };
        // spec of the layout: levels 0..=25 whose bit is set, n << level bytes each, in ascending order, then the MAC
        let mut total: usize = 4;
        let mut lv = 0;
        while lv <= 25 {
            if (word >> lv) & 1 == 1 {
                total += N << lv;
            }
            lv += 1;
        }
        let r = hss_expand_aux_data::<H>(Some(&mut buf[..len]), Some(&seed));
        if len == 0 || copy[0] == 0 || len < 4 || total > len {
            assert!(r.is_none(), "empty, fresh, shorter than its header or shorter than its own layout: ignored");
        }
        match r {
            None => {}
            Some(e) => {
                assert!(MAC_CALLS.load(Ordering::Relaxed) == 1 && MAC_KEY_OK.load(Ordering::Relaxed) == 1, "MAC computed once with the seed-derived key");
                assert!(MAC_DATA_LEN.load(Ordering::Relaxed) == total, "MAC covers exactly header and cached levels");
                assert!(len - total == N, "the rest of the buffer is exactly the MAC");
                let mut i = 0;
                while i < N {
                    assert!(copy[total + i] == MAC_OUT[i].load(Ordering::Relaxed), "stored MAC equals the computed MAC");
                    i += 1;
                }
                assert!(e.level == word && e.hmac.len() == N, "level word and MAC slice");
                let mut off = 4usize;
                lv = 0;
                while lv <= 25 && lv <= crate::constants::MAX_TREE_HEIGHT {
                    if (word >> lv) & 1 == 1 {
                        let d = e.data[lv].as_ref().unwrap();
                        assert!(d.len() == N << lv, "level slice has n * 2^level bytes");
                        assert!(d[0] == copy[off] && d[d.len() - 1] == copy[off + d.len() - 1], "level slice sits at its offset");
                        off += N << lv;
                    } else {
                        assert!(e.data[lv].is_none(), "levels whose bit is clear are absent");
                    }
                    lv += 1;
                }
            }
        }
        kani::cover!(MAC_CALLS.load(Ordering::Relaxed) == 1 && len - total == N, "a complete layout reaches the MAC comparison");
        kani::cover!(len >= 4 && total > len, "corrupted level word reachable");
        kani::cover!(len >= 4 && total <= len && len - total < N && copy[0] != 0, "layout fits but the MAC is cut short: reachable");
    }
    // @h name=c10_expand_untrusted_24 props=C10,C11 tier=extended kind=proved cfg=w8 timeout=2400 funcs=hss_expand_aux_data contract="same contract for every buffer of length 0..24 and every content (layouts without a cached level: header + MAC; truncated, padded and corrupted level words)"
    #[kani::proof]
    #[kani::stub(zeroize::optimization_barrier, no_barrier)]
    #[kani::stub(<[u8; 32] as tinyvec::Array>::default, fast_default)]
    #[kani::stub(compute_seed_derive, stub_seed_derive)]
    #[kani::stub(compute_hmac, stub_hmac)]
    #[kani::unwind(40)]
    fn c10_expand_untrusted_24() {
        check_expand_untrusted::<24>();
    }
    // @h props=C10,C11 tier=extended kind=proved cfg=w8 timeout=2400 funcs=hss_expand_aux_data contract="for every buffer of length 0..120 and every content: no panic; Some only if first byte != 0, len >= 4, the layout named by the level word fits and the MAC field equals compute_hmac(seed-derived key, header||levels); slices at the hash-sigs offsets (MAC computation by contract)"
    #[kani::proof]
    #[kani::stub(zeroize::optimization_barrier, no_barrier)]
    #[kani::stub(<[u8; 32] as tinyvec::Array>::default, fast_default)]
    #[kani::stub(compute_seed_derive, stub_seed_derive)]
    #[kani::stub(compute_hmac, stub_hmac)]
    #[kani::unwind(40)]
    fn c10_expand_untrusted_120() {
        check_expand_untrusted::<120>();
    }

    /// hash-sigs aux MAC: key = H(0^20 || D_DAUX(0xfd 0xfd) || seed); HMAC with ipad 0x36 / opad 0x5c over a 64-byte block:
    /// inner = H((key ^ ipad) || ipad^(64-n) || data), mac = H((key ^ opad) || opad^(64-n) || inner)
    fn check_mac<const NN: usize, const DL: usize>() {
        type R<const NN: usize> = RecHash<NN, 128>;
        R::<NN>::reset_log();
        let seed: [u8; NN] = kani::any();
        let key = compute_seed_derive::<R<NN>>(&seed);
        let mut pre = [0u8; 64];
        pre[20] = 0xfd;
        pre[21] = 0xfd;
        pre[22..22 + NN].copy_from_slice(&seed);
        assert!(R::<NN>::calls() == 1 && R::<NN>::pre_is(0, &pre[..22 + NN]), "aux key = H(0^20 || D_DAUX || seed)");
        assert!(key.as_slice() == &R::<NN>::out(0)[..NN], "key == output");
        let data: [u8; DL] = kani::any();
        let mac = compute_hmac::<R<NN>>(key.as_slice(), &data);
        assert!(R::<NN>::calls() == 3, "two more hash calls");
        let mut p1 = [0u8; 128];
        let mut p2 = [0u8; 128];
        let mut i = 0;
        while i < 64 {
            let kb = if i < NN { key[i] } else { 0 };
            p1[i] = kb ^ 0x36;
            p2[i] = kb ^ 0x5c;
            i += 1;
        }
        p1[64..64 + DL].copy_from_slice(&data);
        assert!(R::<NN>::pre_is(1, &p1[..64 + DL]), "inner = H((key xor ipad, 64 bytes) || data)");
        p2[64..64 + NN].copy_from_slice(&R::<NN>::out(1)[..NN]);
        assert!(R::<NN>::pre_is(2, &p2[..64 + NN]), "mac = H((key xor opad, 64 bytes) || inner)");
        assert!(mac.as_slice() == &R::<NN>::out(2)[..NN], "mac == output");
        kani::cover!(true, "reachable");
    }
    // @h props=C10 tier=quick kind=proved cfg=w8 timeout=1800 funcs=compute_seed_derive;compute_hmac;compute_hmac_ipad;compute_hmac_opad contract="aux key = H(0^20||D_DAUX||seed); HMAC(key, data) with 64-byte ipad/opad blocks; every seed and 20-byte data, every hash function; n=16"
    #[kani::proof]
    #[kani::stub(<[u8; 32] as tinyvec::Array>::default, fast_default)]
    #[kani::unwind(70)]
    fn c10_mac_n16() {
        check_mac::<16, 20>();
    }
    // @h props=C10 tier=extended kind=proved cfg=w8 timeout=1800 funcs=compute_seed_derive;compute_hmac contract="same, n=32"
    #[kani::proof]
    #[kani::stub(<[u8; 32] as tinyvec::Array>::default, fast_default)]
    #[kani::unwind(70)]
    fn c10_mac_n32() {
        check_mac::<32, 20>();
    }

    /// finalize writes HMAC(key(seed), level word || cached levels) into the MAC slice; save/extract address node r of level
    /// floor(log2 r) at offset (r - 2^level) * n
    // @h props=C10 tier=extended kind=bounded cfg=w8 timeout=2400 funcs=hss_finalize_aux_data;hss_save_aux_data;hss_extract_aux_data note="levels 1 and 2 of a buffer laid out by hss_expand_aux_data (level word 0x80000006); node indices 1..7; larger levels use the same index arithmetic" contract="save(r, v) then extract(r) == v for non-zero v, other nodes untouched, uncached levels ignored; finalize MAC pre-image == (key xor ipad block) || level word || level 1 || level 2"
    #[kani::proof]
    #[kani::stub(zeroize::optimization_barrier, no_barrier)]
    #[kani::stub(<[u8; 32] as tinyvec::Array>::default, fast_default)]
    #[kani::unwind(40)]
    fn c10_save_extract_finalize() {
        type R = RecHash<16, 192>;
        R::reset_log();
        // layout: word(4) | level 1: 2 nodes | level 2: 4 nodes | mac(16)
        let mut buf = [0u8; 4 + 32 + 64 + 16];
        buf[..4].copy_from_slice(&0x8000_0006u32.to_be_bytes());
        let mut e = hss_expand_aux_data::<R>(Some(&mut buf[..]), None).unwrap();
        assert!(e.data[1].as_ref().unwrap().len() == 32 && e.data[2].as_ref().unwrap().len() == 64 && e.data[0].is_none(), "levels 1 and 2 cached");
        let r: usize = kani::any();
        kani::assume(r >= 1 && r <= 7);
        let v: [u8; 16] = kani::any();
        kani::assume(v != [0u8; 16]);
        hss_save_aux_data::<R>(&mut e, r, &v);
        let got = hss_extract_aux_data::<R>(&e, r);
        if r == 1 {
            assert!(got.is_none(), "level 0 is not cached: save is a no-op, extract finds nothing");
        } else {
            assert!(got.unwrap().as_slice() == &v[..], "extract returns what was saved for that node");
        }
        let other: usize = kani::any();
        kani::assume(other >= 2 && other <= 7 && other != r);
        assert!(hss_extract_aux_data::<R>(&e, other).is_none(), "all other nodes are still empty (frame)");
        let seed: [u8; 16] = kani::any();
        hss_finalize_aux_data::<R>(&mut e, &seed);
        assert!(R::calls() == 3, "key derivation + inner + outer hash");
        let key = R::out(0);
        let mut p1 = [0u8; 192];
        let mut i = 0;
        while i < 64 {
            p1[i] = (if i < 16 { key[i] } else { 0 }) ^ 0x36;
            i += 1;
        }
        p1[64..68].copy_from_slice(&0x8000_0006u32.to_be_bytes());
        p1[68..100].copy_from_slice(e.data[1].as_ref().unwrap());
        p1[100..164].copy_from_slice(e.data[2].as_ref().unwrap());
        assert!(R::pre_is(1, &p1[..164]), "inner MAC hash covers level word and all cached levels in ascending order");
        assert!(e.hmac[..] == R::out(2)[..16], "MAC slice holds the outer hash");
        kani::cover!(r == 5, "level-2 node reachable");
    }

    // ---- quick-tier stand-in for the harnesses above: concrete level words and buffer lengths, symbolic contents.
    // (With a symbolic level word the iterator chains of hss_expand_aux_data exhaust 18 GB; see DESIGN A.1.)
    fn check_expand_concrete(word: u32, len: usize) {
        MAC_CALLS.store(0, Ordering::Relaxed);
        let mut buf: [u8; 120] = kani::any();
        buf[..4].copy_from_slice(&word.to_be_bytes());
        let seed: [u8; N] = kani::any();
        let copy = buf;
        let mut total: usize = 4;
        let mut lv = 0;
        while lv <= 25 {
            if (word >> lv) & 1 == 1 {
                total += N << lv;
            }
            lv += 1;
        }
        let r = hss_expand_aux_data::<H>(Some(&mut buf[..len]), Some(&seed));
        if total > len {
            assert!(r.is_none(), "shorter than its own layout: ignored");
        }
        if len != total + N {
            assert!(r.is_none(), "a buffer whose MAC field is cut short or padded is never accepted");
        }
        match r {
            None => {}
            Some(e) => {
                assert!(MAC_CALLS.load(Ordering::Relaxed) == 1 && MAC_KEY_OK.load(Ordering::Relaxed) == 1, "MAC computed once with the seed-derived key");
                assert!(MAC_DATA_LEN.load(Ordering::Relaxed) == total, "MAC covers exactly header and cached levels");
                let mut i = 0;
                while i < N {
                    assert!(copy[total + i] == MAC_OUT[i].load(Ordering::Relaxed), "stored MAC equals the computed MAC");
                    i += 1;
                }
                assert!(e.level == word && e.hmac.len() == N, "level word and MAC slice");
                let mut off = 4usize;
                lv = 0;
                while lv <= 25 && lv <= crate::constants::MAX_TREE_HEIGHT {
                    if (word >> lv) & 1 == 1 {
                        let d = e.data[lv].as_ref().unwrap();
                        assert!(d.len() == N << lv && d[0] == copy[off] && d[d.len() - 1] == copy[off + d.len() - 1], "level slice at its hash-sigs offset");
                        off += N << lv;
                    } else {
                        assert!(e.data[lv].is_none(), "levels whose bit is clear are absent");
                    }
                    lv += 1;
                }
            }
        }
        kani::cover!(len != total + N || MAC_CALLS.load(Ordering::Relaxed) == 1, "a complete layout reaches the MAC comparison");
    }
    macro_rules! expand_concrete_harness {
        ($name:ident, $word:expr, $total:expr) => {
            #[kani::proof]
            #[kani::stub(zeroize::optimization_barrier, no_barrier)]
            #[kani::stub(<[u8; 32] as tinyvec::Array>::default, fast_default)]
            #[kani::stub(compute_seed_derive, stub_seed_derive)]
            #[kani::stub(compute_hmac, stub_hmac)]
            #[kani::unwind(40)]
            fn $name() {
                let which: u8 = kani::any();
                // one call per path (the expander is the expensive part): the solver picks the case
                let len = match which % 4 {
                    0 => $total + N,      // complete
                    1 => $total + N - 1,  // MAC cut short by one byte
                    2 => $total,          // MAC missing
                    _ => $total + N + 1,  // padded
                };
                check_expand_concrete($word, len);
            }
        };
    }
    macro_rules! expand_fixed_len_harness {
        ($name:ident, $word:expr, $len:expr) => {
            #[kani::proof]
            #[kani::stub(zeroize::optimization_barrier, no_barrier)]
            #[kani::stub(<[u8; 32] as tinyvec::Array>::default, fast_default)]
            #[kani::stub(compute_seed_derive, stub_seed_derive)]
            #[kani::stub(compute_hmac, stub_hmac)]
            #[kani::unwind(40)]
            fn $name() {
                check_expand_concrete($word, $len);
            }
        };
    }
    // one buffer length per harness (a symbolic choice between lengths makes every slice bound symbolic and is what made the
    // *_word_* harnesses above expensive)
    // @h name=c10_expand_nolevel_nomac props=C10,C11 tier=thorough kind=bounded cfg=w8 timeout=2400 funcs=hss_expand_aux_data note="level word 0x80000000, length 4 (MAC missing); symbolic seed" contract="a used buffer whose MAC field is missing is never accepted"
    expand_fixed_len_harness!(c10_expand_nolevel_nomac, 0x8000_0000u32, 4usize);
    // @h name=c10_expand_nolevel_short props=C10,C11 tier=extended kind=bounded cfg=w8 timeout=1200 funcs=hss_expand_aux_data note="level word 0x80000000, length 19 (MAC cut short by one byte); symbolic contents and seed" contract="a used buffer whose MAC field is cut short is never accepted"
    expand_fixed_len_harness!(c10_expand_nolevel_short, 0x8000_0000u32, 19usize);
    // @h name=c10_expand_nolevel_full props=C10,C11 tier=extended kind=bounded cfg=w8 timeout=1200 funcs=hss_expand_aux_data note="level word 0x80000000, length 20 (complete); symbolic contents and seed" contract="accepted iff the stored MAC equals HMAC(seed-derived key, header)"
    expand_fixed_len_harness!(c10_expand_nolevel_full, 0x8000_0000u32, 20usize);
    // @h name=c10_expand_nolevel_padded props=C10,C11 tier=extended kind=bounded cfg=w8 timeout=1200 funcs=hss_expand_aux_data note="level word 0x80000000, length 21 (one byte of padding)" contract="a padded buffer is never accepted"
    expand_fixed_len_harness!(c10_expand_nolevel_padded, 0x8000_0000u32, 21usize);
    // @h name=c10_expand_l1_hdr_window props=C10,C11 tier=extended kind=bounded cfg=w8 timeout=2400 funcs=hss_expand_aux_data note="level word 0x80000002 (level 1: 32 bytes), length 33: the cached level fits, header + level does not (seeded C11-2: bounds check that forgets the 4-byte header, then split_at panics)" contract="total (no panic) and None: a buffer shorter than header + cached levels is never accepted"
    expand_fixed_len_harness!(c10_expand_l1_hdr_window, 0x8000_0002u32, 33usize);
    // @h name=c10_expand_word_nolevel props=C10,C11 tier=extended kind=bounded cfg=w8 timeout=1200 funcs=hss_expand_aux_data note="level word 0x80000000 (no cached level), lengths 4, 19, 20, 21; symbolic contents and seed" contract="Some only for the complete layout whose MAC field equals compute_hmac(seed-derived key, header); cut, missing or padded MAC: None; no panic"
    expand_concrete_harness!(c10_expand_word_nolevel, 0x8000_0000u32, 4usize);
    // @h name=c10_expand_word_l1 props=C10,C11 tier=thorough kind=bounded cfg=w8 timeout=2400 funcs=hss_expand_aux_data note="level word 0x80000002 (level 1: 32 bytes), lengths 36, 51, 52, 53" contract="same, one cached level: slice at offset 4, MAC over header || level 1"
    expand_concrete_harness!(c10_expand_word_l1, 0x8000_0002u32, 36usize);
    // @h name=c10_expand_word_l12 props=C10,C11 tier=extended kind=bounded cfg=w8 timeout=1200 funcs=hss_expand_aux_data note="level word 0x80000006 (levels 1 and 2), lengths 100, 115, 116, 117" contract="same, two cached levels in ascending order"
    expand_concrete_harness!(c10_expand_word_l12, 0x8000_0006u32, 100usize);
}
