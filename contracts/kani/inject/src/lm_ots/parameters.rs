// ---- injected by /verif (insert-only) ----
#[cfg(kani)]
pub(crate) mod kani_verif {
    use super::*;
    use crate::hasher::sha256::{Sha256_128, Sha256_192, Sha256_256};
    use crate::hasher::shake256::{Shake256_128, Shake256_192, Shake256_256};
    use crate::kani_support::*;

    fn alg(w: u8) -> LmotsAlgorithm {
        match w { 1 => LmotsAlgorithm::LmotsW1, 2 => LmotsAlgorithm::LmotsW2, 4 => LmotsAlgorithm::LmotsW4, _ => LmotsAlgorithm::LmotsW8 }
    }
    fn type_of_w(w: u8) -> u32 { match w { 1 => 1, 2 => 2, 4 => 3, _ => 4 } }

    /// parameter table row (n, w) against RFC 8554 section 4.1 / Appendix B (SP 800-208 for n = 24)
    fn check_params<H: HashChain>(n: u32, w: u8) {
        let p = alg(w).construct_parameter::<H>().unwrap();
        let (_u, _v, ls, pp) = spec_appendix_b(n, w as u32);
        assert!(H::OUTPUT_SIZE as u32 == n, "hash output size");
        assert!(p.get_hash_function_output_size() == n as usize, "n of the parameter set");
        assert!(p.get_winternitz() == w, "w of the type code");
        assert!(p.get_type_id() == type_of_w(w), "type code");
        assert!(p.get_num_winternitz_chains() as u32 == pp, "p equals the Appendix-B value u + v");
        assert!(get_num_winternitz_chains(w as usize, n as usize) == pp as usize, "chain count table equals Appendix B");
        assert!(p.get_checksum_left_shift() as u32 == ls, "ls equals the Appendix-B value 16 - w*v");
        let q = LmotsAlgorithm::get_from_type::<H>(type_of_w(w)).unwrap();
        assert!(q == p, "get_from_type returns the same row");
        assert!(LmotsAlgorithm::from(type_of_w(w)) == alg(w), "type code decoding");
        kani::cover!(true, "reachable");
    }

    /// append_checksum_to(Q) == Q || u16(Cksm(Q)) with Cksm of RFC 8554 Algorithm 2 and the left shift of the parameter set,
    /// for every digest Q (loop bounds are the constants u <= 256); fast_verify_eval agrees with the digit sum
    fn check_cksm<H: HashChain, const N: usize>(w: u8) {
        let p = alg(w).construct_parameter::<H>().unwrap();
        let q: [u8; N] = kani::any();
        let r = p.append_checksum_to(&q);
        let c = spec_cksm(&q, N as u32, w as u32, p.get_checksum_left_shift() as u32);
        assert!(r.len() == N + 2, "length n + 2");
        assert!(r[..N] == q[..], "digest copied unchanged");
        assert!(r[N] == (c >> 8) as u8 && r[N + 1] == (c & 0xff) as u8, "checksum == (sum << ls), big-endian, directly behind the digest");
        // no digit of the checksum is lost as long as the sum fits below 2^(16 - ls)
        let sum_max = ((N as u32 * 8) / w as u32) * ((1u32 << w) - 1);
        assert!((sum_max << p.get_checksum_left_shift()) <= 0xffff, "no u16 overflow of the shifted checksum");
        kani::cover!(c != 0, "non-zero checksum reachable");
    }
    // @h props=C12,C07! tier=quick kind=proved funcs=LmotsAlgorithm::construct_parameter;LmotsAlgorithm::get_from_type;get_num_winternitz_chains contract="parameter row (n=32, w=1): n, w, type code, p == Appendix B, ls == Appendix B"
    #[kani::proof]
    #[kani::unwind(20)]
    fn c12_params_n32_w1() {
        check_params::<Sha256_256>(32, 1);
        check_params::<Shake256_256>(32, 1);
    }
    // @h props=C12,C07 tier=quick kind=proved funcs=LmotsAlgorithm::construct_parameter;LmotsAlgorithm::get_from_type;get_num_winternitz_chains contract="parameter row (n=32, w=2): n, w, type code, p == Appendix B, ls == Appendix B"
    #[kani::proof]
    #[kani::unwind(20)]
    fn c12_params_n32_w2() {
        check_params::<Sha256_256>(32, 2);
        check_params::<Shake256_256>(32, 2);
    }
    // @h props=C12,C07 tier=quick kind=proved funcs=LmotsAlgorithm::construct_parameter;LmotsAlgorithm::get_from_type;get_num_winternitz_chains contract="parameter row (n=32, w=4): n, w, type code, p == Appendix B, ls == Appendix B"
    #[kani::proof]
    #[kani::unwind(20)]
    fn c12_params_n32_w4() {
        check_params::<Sha256_256>(32, 4);
        check_params::<Shake256_256>(32, 4);
    }
    // @h props=C12,C07! tier=quick kind=proved funcs=LmotsAlgorithm::construct_parameter;LmotsAlgorithm::get_from_type;get_num_winternitz_chains contract="parameter row (n=32, w=8): n, w, type code, p == Appendix B, ls == Appendix B"
    #[kani::proof]
    #[kani::unwind(20)]
    fn c12_params_n32_w8() {
        check_params::<Sha256_256>(32, 8);
        check_params::<Shake256_256>(32, 8);
    }
    // @h props=C12,C07! tier=quick kind=proved funcs=LmotsAlgorithm::construct_parameter;LmotsAlgorithm::get_from_type;get_num_winternitz_chains contract="parameter row (n=24, w=1): n, w, type code, p == Appendix B, ls == Appendix B"
    #[kani::proof]
    #[kani::unwind(20)]
    fn c12_params_n24_w1() {
        check_params::<Sha256_192>(24, 1);
        check_params::<Shake256_192>(24, 1);
    }
    // @h props=C12,C07 tier=quick kind=proved funcs=LmotsAlgorithm::construct_parameter;LmotsAlgorithm::get_from_type;get_num_winternitz_chains contract="parameter row (n=24, w=2): n, w, type code, p == Appendix B, ls == Appendix B"
    #[kani::proof]
    #[kani::unwind(20)]
    fn c12_params_n24_w2() {
        check_params::<Sha256_192>(24, 2);
        check_params::<Shake256_192>(24, 2);
    }
    // @h props=C12,C07 tier=quick kind=proved funcs=LmotsAlgorithm::construct_parameter;LmotsAlgorithm::get_from_type;get_num_winternitz_chains contract="parameter row (n=24, w=4): n, w, type code, p == Appendix B, ls == Appendix B"
    #[kani::proof]
    #[kani::unwind(20)]
    fn c12_params_n24_w4() {
        check_params::<Sha256_192>(24, 4);
        check_params::<Shake256_192>(24, 4);
    }
    // @h props=C12,C07 tier=quick kind=proved funcs=LmotsAlgorithm::construct_parameter;LmotsAlgorithm::get_from_type;get_num_winternitz_chains contract="parameter row (n=24, w=8): n, w, type code, p == Appendix B, ls == Appendix B"
    #[kani::proof]
    #[kani::unwind(20)]
    fn c12_params_n24_w8() {
        check_params::<Sha256_192>(24, 8);
        check_params::<Shake256_192>(24, 8);
    }
    // @h props=C12,C07! tier=quick kind=proved funcs=LmotsAlgorithm::construct_parameter;LmotsAlgorithm::get_from_type;get_num_winternitz_chains contract="parameter row (n=16, w=1): n, w, type code, p == Appendix B, ls == Appendix B"
    #[kani::proof]
    #[kani::unwind(20)]
    fn c12_params_n16_w1() {
        check_params::<Sha256_128>(16, 1);
        check_params::<Shake256_128>(16, 1);
    }
    // @h props=C12,C07! tier=quick kind=proved funcs=LmotsAlgorithm::construct_parameter;LmotsAlgorithm::get_from_type;get_num_winternitz_chains contract="parameter row (n=16, w=2): n, w, type code, p == Appendix B, ls == Appendix B"
    #[kani::proof]
    #[kani::unwind(20)]
    fn c12_params_n16_w2() {
        check_params::<Sha256_128>(16, 2);
        check_params::<Shake256_128>(16, 2);
    }
    // @h props=C12,C07 tier=quick kind=proved funcs=LmotsAlgorithm::construct_parameter;LmotsAlgorithm::get_from_type;get_num_winternitz_chains contract="parameter row (n=16, w=4): n, w, type code, p == Appendix B, ls == Appendix B"
    #[kani::proof]
    #[kani::unwind(20)]
    fn c12_params_n16_w4() {
        check_params::<Sha256_128>(16, 4);
        check_params::<Shake256_128>(16, 4);
    }
    // @h props=C12,C07 tier=quick kind=proved funcs=LmotsAlgorithm::construct_parameter;LmotsAlgorithm::get_from_type;get_num_winternitz_chains contract="parameter row (n=16, w=8): n, w, type code, p == Appendix B, ls == Appendix B"
    #[kani::proof]
    #[kani::unwind(20)]
    fn c12_params_n16_w8() {
        check_params::<Sha256_128>(16, 8);
        check_params::<Shake256_128>(16, 8);
    }
    // @h props=C12,C07,C02 tier=thorough kind=proved timeout=1800 funcs=LmotsParameter::checksum;LmotsParameter::append_checksum_to;coef contract="append_checksum_to(Q) == Q || u16(Cksm(Q) << ls) for every 32-byte digest, w=1 (complete: loop bound is the constant u)"
    #[kani::proof]
    #[kani::stub(<[u8; 32] as tinyvec::Array>::default, fast_default)]
    #[kani::unwind(260)]
    fn c12_cksm_n32_w1() {
        check_cksm::<Sha256_256, 32>(1);
    }
    // @h props=C12,C07,C02 tier=thorough kind=proved timeout=1800 funcs=LmotsParameter::checksum;LmotsParameter::append_checksum_to;coef contract="append_checksum_to(Q) == Q || u16(Cksm(Q) << ls) for every 32-byte digest, w=2 (complete: loop bound is the constant u)"
    #[kani::proof]
    #[kani::stub(<[u8; 32] as tinyvec::Array>::default, fast_default)]
    #[kani::unwind(132)]
    fn c12_cksm_n32_w2() {
        check_cksm::<Sha256_256, 32>(2);
    }
    // @h props=C12,C07,C02 tier=quick kind=proved timeout=1800 funcs=LmotsParameter::checksum;LmotsParameter::append_checksum_to;coef contract="append_checksum_to(Q) == Q || u16(Cksm(Q) << ls) for every 32-byte digest, w=4 (complete: loop bound is the constant u)"
    #[kani::proof]
    #[kani::stub(<[u8; 32] as tinyvec::Array>::default, fast_default)]
    #[kani::unwind(68)]
    fn c12_cksm_n32_w4() {
        check_cksm::<Sha256_256, 32>(4);
    }
    // @h props=C12,C07,C02 tier=quick kind=proved timeout=1800 funcs=LmotsParameter::checksum;LmotsParameter::append_checksum_to;coef contract="append_checksum_to(Q) == Q || u16(Cksm(Q) << ls) for every 32-byte digest, w=8 (complete: loop bound is the constant u)"
    #[kani::proof]
    #[kani::stub(<[u8; 32] as tinyvec::Array>::default, fast_default)]
    #[kani::unwind(36)]
    fn c12_cksm_n32_w8() {
        check_cksm::<Sha256_256, 32>(8);
    }
    // @h props=C12,C07,C02 tier=thorough kind=proved timeout=1800 funcs=LmotsParameter::checksum;LmotsParameter::append_checksum_to;coef contract="append_checksum_to(Q) == Q || u16(Cksm(Q) << ls) for every 24-byte digest, w=1 (complete: loop bound is the constant u)"
    #[kani::proof]
    #[kani::stub(<[u8; 32] as tinyvec::Array>::default, fast_default)]
    #[kani::unwind(196)]
    fn c12_cksm_n24_w1() {
        check_cksm::<Sha256_192, 24>(1);
    }
    // @h props=C12,C07,C02 tier=quick kind=proved timeout=1800 funcs=LmotsParameter::checksum;LmotsParameter::append_checksum_to;coef contract="append_checksum_to(Q) == Q || u16(Cksm(Q) << ls) for every 24-byte digest, w=2 (complete: loop bound is the constant u)"
    #[kani::proof]
    #[kani::stub(<[u8; 32] as tinyvec::Array>::default, fast_default)]
    #[kani::unwind(100)]
    fn c12_cksm_n24_w2() {
        check_cksm::<Sha256_192, 24>(2);
    }
    // @h props=C12,C07,C02! tier=quick kind=proved timeout=1800 funcs=LmotsParameter::checksum;LmotsParameter::append_checksum_to;coef contract="append_checksum_to(Q) == Q || u16(Cksm(Q) << ls) for every 24-byte digest, w=4 (complete: loop bound is the constant u)"
    #[kani::proof]
    #[kani::stub(<[u8; 32] as tinyvec::Array>::default, fast_default)]
    #[kani::unwind(52)]
    fn c12_cksm_n24_w4() {
        check_cksm::<Sha256_192, 24>(4);
    }
    // @h props=C12,C07,C02 tier=quick kind=proved timeout=1800 funcs=LmotsParameter::checksum;LmotsParameter::append_checksum_to;coef contract="append_checksum_to(Q) == Q || u16(Cksm(Q) << ls) for every 24-byte digest, w=8 (complete: loop bound is the constant u)"
    #[kani::proof]
    #[kani::stub(<[u8; 32] as tinyvec::Array>::default, fast_default)]
    #[kani::unwind(28)]
    fn c12_cksm_n24_w8() {
        check_cksm::<Sha256_192, 24>(8);
    }
    // @h props=C12,C07,C02 tier=quick kind=proved timeout=1800 funcs=LmotsParameter::checksum;LmotsParameter::append_checksum_to;coef contract="append_checksum_to(Q) == Q || u16(Cksm(Q) << ls) for every 16-byte digest, w=1 (complete: loop bound is the constant u)"
    #[kani::proof]
    #[kani::stub(<[u8; 32] as tinyvec::Array>::default, fast_default)]
    #[kani::unwind(132)]
    fn c12_cksm_n16_w1() {
        check_cksm::<Sha256_128, 16>(1);
    }
    // @h props=C12,C07,C02 tier=thorough kind=proved timeout=1800 funcs=LmotsParameter::checksum;LmotsParameter::append_checksum_to;coef contract="append_checksum_to(Q) == Q || u16(Cksm(Q) << ls) for every 16-byte digest, w=2 (complete: loop bound is the constant u)"
    #[kani::proof]
    #[kani::stub(<[u8; 32] as tinyvec::Array>::default, fast_default)]
    #[kani::unwind(68)]
    fn c12_cksm_n16_w2() {
        check_cksm::<Sha256_128, 16>(2);
    }
    // @h props=C12,C07,C02 tier=quick kind=proved timeout=1800 funcs=LmotsParameter::checksum;LmotsParameter::append_checksum_to;coef contract="append_checksum_to(Q) == Q || u16(Cksm(Q) << ls) for every 16-byte digest, w=4 (complete: loop bound is the constant u)"
    #[kani::proof]
    #[kani::stub(<[u8; 32] as tinyvec::Array>::default, fast_default)]
    #[kani::unwind(36)]
    fn c12_cksm_n16_w4() {
        check_cksm::<Sha256_128, 16>(4);
    }
    // @h props=C12,C07!,C02! tier=quick kind=proved timeout=1800 funcs=LmotsParameter::checksum;LmotsParameter::append_checksum_to;coef contract="append_checksum_to(Q) == Q || u16(Cksm(Q) << ls) for every 16-byte digest, w=8 (complete: loop bound is the constant u)"
    #[kani::proof]
    #[kani::stub(<[u8; 32] as tinyvec::Array>::default, fast_default)]
    #[kani::unwind(20)]
    fn c12_cksm_n16_w8() {
        check_cksm::<Sha256_128, 16>(8);
    }

    // ------------------------------------------------------------------ C15: cost evaluation of a candidate digest
    /// fast_verify_eval(Q) == sum_{i<p} coef(Q || Cksm(Q), i, w)  (the number of chain steps the signer performs)
    #[cfg(feature = "fast_verify")]
    fn check_eval<H: HashChain, const N: usize>(w: u8) {
        let p = alg(w).construct_parameter::<H>().unwrap();
        let q: [u8; N] = kani::any();
        let cached = p.fast_verify_eval_init();
        let r = p.fast_verify_eval(&q, &cached);
        let mut qc = [0u8; 34];
        qc[..N].copy_from_slice(&q);
        let ck = spec_cksm(&q, N as u32, w as u32, p.get_checksum_left_shift() as u32);
        qc[N] = (ck >> 8) as u8;
        qc[N + 1] = (ck & 0xff) as u8;
        let mut total = 0u32;
        let mut i = 0;
        while i < p.get_num_winternitz_chains() as u32 {
            total += spec_coef(&qc, i, w as u32);
            i += 1;
        }
        assert!(r as u32 == total, "fast_verify_eval == sum of all p digits of Q || Cksm(Q)");
        kani::cover!(total > 0, "reachable");
    }
    // @h props=C15 tier=quick kind=proved cfg=fastverify timeout=1800 funcs=LmotsParameter::fast_verify_eval;LmotsParameter::fast_verify_eval_init;coef_helper contract="fast_verify_eval(Q) == sum of the p digits of Q||Cksm(Q) for every 32-byte digest, w=8"
    #[cfg(feature = "fast_verify")]
    #[kani::proof]
    #[kani::stub(<[u8; 32] as tinyvec::Array>::default, fast_default)]
    #[kani::unwind(36)]
    fn c15_eval_n32_w8() {
        check_eval::<Sha256_256, 32>(8);
    }
    // @h props=C15 tier=quick kind=proved cfg=fastverify timeout=1800 funcs=LmotsParameter::fast_verify_eval;LmotsParameter::fast_verify_eval_init;coef_helper contract="fast_verify_eval(Q) == sum of the p digits of Q||Cksm(Q) for every 32-byte digest, w=4"
    #[cfg(feature = "fast_verify")]
    #[kani::proof]
    #[kani::stub(<[u8; 32] as tinyvec::Array>::default, fast_default)]
    #[kani::unwind(68)]
    fn c15_eval_n32_w4() {
        check_eval::<Sha256_256, 32>(4);
    }
    // @h props=C15 tier=quick kind=proved cfg=fastverify timeout=1800 funcs=LmotsParameter::fast_verify_eval;LmotsParameter::fast_verify_eval_init;coef_helper contract="fast_verify_eval(Q) == sum of the p digits of Q||Cksm(Q) for every 24-byte digest, w=8"
    #[cfg(feature = "fast_verify")]
    #[kani::proof]
    #[kani::stub(<[u8; 32] as tinyvec::Array>::default, fast_default)]
    #[kani::unwind(28)]
    fn c15_eval_n24_w8() {
        check_eval::<Sha256_192, 24>(8);
    }
    // @h props=C15 tier=quick kind=proved cfg=fastverify timeout=1800 funcs=LmotsParameter::fast_verify_eval;LmotsParameter::fast_verify_eval_init;coef_helper contract="fast_verify_eval(Q) == sum of the p digits of Q||Cksm(Q) for every 24-byte digest, w=4"
    #[cfg(feature = "fast_verify")]
    #[kani::proof]
    #[kani::stub(<[u8; 32] as tinyvec::Array>::default, fast_default)]
    #[kani::unwind(52)]
    fn c15_eval_n24_w4() {
        check_eval::<Sha256_192, 24>(4);
    }
    // @h props=C15 tier=quick kind=proved cfg=fastverify timeout=1800 funcs=LmotsParameter::fast_verify_eval;LmotsParameter::fast_verify_eval_init;coef_helper contract="fast_verify_eval(Q) == sum of the p digits of Q||Cksm(Q) for every 16-byte digest, w=8"
    #[cfg(feature = "fast_verify")]
    #[kani::proof]
    #[kani::stub(<[u8; 32] as tinyvec::Array>::default, fast_default)]
    #[kani::unwind(20)]
    fn c15_eval_n16_w8() {
        check_eval::<Sha256_128, 16>(8);
    }
    // @h props=C15 tier=quick kind=proved cfg=fastverify timeout=1800 funcs=LmotsParameter::fast_verify_eval;LmotsParameter::fast_verify_eval_init;coef_helper contract="fast_verify_eval(Q) == sum of the p digits of Q||Cksm(Q) for every 16-byte digest, w=4"
    #[cfg(feature = "fast_verify")]
    #[kani::proof]
    #[kani::stub(<[u8; 32] as tinyvec::Array>::default, fast_default)]
    #[kani::unwind(36)]
    fn c15_eval_n16_w4() {
        check_eval::<Sha256_128, 16>(4);
    }
}
