// ---- injected by /verif (insert-only) ----
#[cfg(kani)]
pub(crate) mod kani_verif {
    use super::*;
    use crate::kani_support::*;

    fn alg(w: u8) -> LmotsAlgorithm {
        match w { 1 => LmotsAlgorithm::LmotsW1, 2 => LmotsAlgorithm::LmotsW2, 4 => LmotsAlgorithm::LmotsW4, _ => LmotsAlgorithm::LmotsW8 }
    }

    /// RFC 8554 Algorithm 4b: Q = H(I || u32(q) || D_MESG || C || msg); z_i = chain_i(y_i, a_i, 2^w - 1);
    /// Kc = H(I || u32(q) || D_PBLC || z_0 .. z_{p-1})      -- the contract assumed by the Verus unit v3_verify
    fn check_kc<const N: usize, const CAP: usize, const SIGLEN: usize, const M: usize>(w: u8) {
        type R<const N: usize, const CAP: usize> = RecHashC<N, CAP>;
        R::<N, CAP>::reset_log();
        let p = alg(w).construct_parameter::<R<N, CAP>>().unwrap();
        let n_chains = p.get_num_winternitz_chains() as usize;
        assert!(SIGLEN == 4 + N * (n_chains + 1), "harness sizing");
        let mut sigb: [u8; SIGLEN] = kani::any();
        sigb[..4].copy_from_slice(&p.get_type_id().to_be_bytes());
        let sig = InMemoryLmotsSignature::<R<N, CAP>>::new(&sigb).unwrap();
        let id: [u8; 16] = kani::any();
        let q: u32 = kani::any();
        let msg: [u8; M] = kani::any();
        let kc = generate_public_key_candidate(&sig, &id, q, &msg);

        assert!(R::<N, CAP>::calls() == 2, "two hash calls (Q and Kc)");
        let mut pre = [0u8; CAP];
        pre[..16].copy_from_slice(&id);
        pre[16..20].copy_from_slice(&q.to_be_bytes());
        pre[20] = 0x81;
        pre[21] = 0x81;
        pre[22..22 + N].copy_from_slice(&sigb[4..4 + N]);
        pre[22 + N..22 + N + M].copy_from_slice(&msg);
        assert!(R::<N, CAP>::pre_is(0, &pre[..22 + N + M]), "Q pre-image == I || u32(q) || D_MESG || C || message");
        let qd = R::<N, CAP>::out(0);
        let mut qc = [0u8; 34];
        qc[..N].copy_from_slice(&qd[..N]);
        let ck = spec_cksm(&qd[..N], N as u32, w as u32, p.get_checksum_left_shift() as u32);
        qc[N] = (ck >> 8) as u8;
        qc[N + 1] = (ck & 0xff) as u8;
        assert!(R::<N, CAP>::chain_calls() == n_chains, "p chains");
        let mut pre2 = [0u8; CAP];
        pre2[..16].copy_from_slice(&id);
        pre2[16..20].copy_from_slice(&q.to_be_bytes());
        pre2[20] = 0x80;
        pre2[21] = 0x80;
        let mut i = 0;
        while i < n_chains {
            let a = spec_coef(&qc, i as u32, w as u32) as usize;
            let (cid, from, to) = R::<N, CAP>::chain_meta(i);
            assert!(cid == i && from == a && to == (1usize << w) - 1, "chain i runs from a_i = coef(Q || Cksm(Q), i, w) to 2^w - 1");
            assert!(R::<N, CAP>::chain_start(i)[..N] == sigb[4 + N + i * N..4 + N + (i + 1) * N], "chain i starts at y_i of the signature");
            pre2[22 + i * N..22 + (i + 1) * N].copy_from_slice(&R::<N, CAP>::chain_out(i)[..N]);
            i += 1;
        }
        let hdr = R::<N, CAP>::chain_hdr();
        assert!(hdr[..16] == id && hdr[16..] == q.to_be_bytes(), "chains are bound to I and q");
        assert!(R::<N, CAP>::pre_is(1, &pre2[..22 + n_chains * N]), "Kc pre-image == I || u32(q) || D_PBLC || z_0 .. z_{p-1}");
        assert!(kc.len() == N && kc.as_slice() == &R::<N, CAP>::out(1)[..N], "Kc == output");
        kani::cover!(true, "reachable");
    }

    macro_rules! h {
        ($name:ident, $body:expr, $unw:expr) => {
            #[kani::proof]
            #[kani::stub(zeroize::optimization_barrier, no_barrier)]
            #[kani::stub(<[u8; 32] as tinyvec::Array>::default, fast_default)]
            #[kani::unwind($unw)]
            fn $name() {
                $body;
            }
        };
    }
    // @h name=c02_lmots_kc_n16_w8 props=C02,C06,C12,C01 tier=extended kind=proved cfg=w8 timeout=2400 funcs=lm_ots::verify::generate_public_key_candidate;HashChainArray::new;HashChainArray::push;HashChainArray::as_slice;InMemoryLmotsSignature::get_signature_data contract="RFC 8554 Alg. 4b: Q = H(I||u32(q)||D_MESG||C||msg), z_i = do_hash_chain(i, y_i, coef(Q||Cksm(Q), i, w), 2^w-1), Kc = H(I||u32(q)||D_PBLC||z_0..z_{p-1}); every signature/I/q/3-byte message; every hash function; n=16, w=8"
    h!(c02_lmots_kc_n16_w8, check_kc::<16, 320, 308, 3>(8), 48);
    // @h name=c02_lmots_kc_n32_w8 props=C02,C06,C12,C01 tier=extended kind=proved cfg=w8 timeout=3600 funcs=lm_ots::verify::generate_public_key_candidate contract="same, n=32, w=8 (p=34)"
    h!(c02_lmots_kc_n32_w8, check_kc::<32, 1120, 1124, 3>(8), 150);
    // @h name=c02_lmots_kc_n16_w4 props=C02,C06,C12,C01 tier=extended kind=proved cfg=default timeout=3600 funcs=lm_ots::verify::generate_public_key_candidate contract="same, n=16, w=4 (p=35)"
    h!(c02_lmots_kc_n16_w4, check_kc::<16, 600, 580, 0>(4), 80);

    /// contract of the HashChainArray container that the Verus unit v4_lmots_verify assumes: a sequence with the capacity
    /// of the selected Winternitz parameter (p(32, w) elements), push appends, as_slice returns what was pushed, in order.
    /// Contents are a concrete position-dependent pattern (the container only copies bytes; with symbolic contents and a
    /// symbolic index the 8 KiB structures made CBMC take 15 minutes for w = 8 and time out for w <= 4).
    fn check_hca(w: u8) {
        type HF = crate::hasher::sha256::Sha256_256;
        let p = alg(w).construct_parameter::<HF>().unwrap();
        let n_chains = p.get_num_winternitz_chains() as usize;
        let mut a = HashChainArray::<HF>::new(&p);
        assert!(a.as_slice().len() == 0, "new() is empty");
        let mut i = 0;
        while i < n_chains {
            let mut bytes = [0u8; MAX_HASH_SIZE];
            bytes[0] = i as u8;
            bytes[1] = (i >> 8) as u8;
            bytes[MAX_HASH_SIZE - 1] = (i as u8) ^ 0x5a;
            let v = ArrayVec::from_array_len(bytes, MAX_HASH_SIZE);
            a.push(&v); // capacity p(32, w): a smaller array would panic here
            i += 1;
        }
        let s = a.as_slice();
        assert!(s.len() == n_chains, "p pushes give p elements");
        // first, middle and last element (every element: c02_lmots_kc_*, thorough)
        let probes = [0usize, n_chains / 2, n_chains - 1];
        let mut k = 0;
        while k < 3 {
            let i = probes[k];
            assert!(s[i].len() == MAX_HASH_SIZE && s[i][0] == i as u8 && s[i][1] == (i >> 8) as u8 && s[i][MAX_HASH_SIZE - 1] == (i as u8) ^ 0x5a,
                "element i is the i-th pushed value");
            k += 1;
        }
        kani::cover!(true, "reachable");
    }
    // @h name=c02_hca_w8 props=C02,C06!,C01! tier=quick kind=bounded cfg=default timeout=900 funcs=HashChainArray::new;HashChainArray::push;HashChainArray::as_slice note="element contents are a concrete pattern (data-independent copying code)" contract="container contract assumed by Verus unit v4_lmots_verify: capacity p(32,w), push appends, as_slice returns the pushed sequence in order; W8 (34 elements)"
    h!(c02_hca_w8, check_hca(8), 40);
    // @h name=c02_hca_w4 props=C02,C06,C01 tier=extended kind=bounded cfg=default timeout=900 funcs=HashChainArray::new;HashChainArray::push;HashChainArray::as_slice contract="same, W4 (67 elements)"
    h!(c02_hca_w4, check_hca(4), 72);
    // @h name=c02_hca_w2 props=C02,C06,C01 tier=extended kind=bounded cfg=default timeout=1200 funcs=HashChainArray::new;HashChainArray::push;HashChainArray::as_slice contract="same, W2 (133 elements)"
    h!(c02_hca_w2, check_hca(2), 140);
    // @h name=c02_hca_w1 props=C02,C06,C01 tier=extended kind=bounded cfg=default timeout=1800 funcs=HashChainArray::new;HashChainArray::push;HashChainArray::as_slice contract="same, W1 (265 elements)"
    h!(c02_hca_w1, check_hca(1), 270);

    // the same container contract in a build whose signing side is restricted to W8 (capacity of the signer's buffers: 34
    // chains): the VERIFIER must still hold every chain of a W4 / W1 signature (C06: no panic on well-formed input; C14)
    // @h name=c06_hca_w4_cfgw8 props=C06,C14,C02 tier=extended kind=bounded cfg=w8 timeout=900 funcs=HashChainArray::new;HashChainArray::push;HashChainArray::as_slice note="concrete content pattern" contract="W8-only build: the verifier's chain buffer still holds the 67 chains of a W4 signature"
    h!(c06_hca_w4_cfgw8, check_hca(4), 72);
    // @h name=c06_hca_w1_cfgw8 props=C06,C14,C02 tier=extended kind=bounded cfg=w8 timeout=1800 funcs=HashChainArray::new;HashChainArray::push;HashChainArray::as_slice note="concrete content pattern" contract="same, the 265 chains of a W1 signature"
    h!(c06_hca_w1_cfgw8, check_hca(1), 270);
}
