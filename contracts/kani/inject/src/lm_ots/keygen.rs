// ---- injected by /verif (insert-only) ----
#[cfg(kani)]
pub(crate) mod kani_verif {
    use super::*;
    use crate::kani_support::*;
    use crate::lm_ots::parameters::LmotsAlgorithm;

    fn alg(w: u8) -> LmotsAlgorithm {
        match w { 1 => LmotsAlgorithm::LmotsW1, 2 => LmotsAlgorithm::LmotsW2, 4 => LmotsAlgorithm::LmotsW4, _ => LmotsAlgorithm::LmotsW8 }
    }

    /// C08: x_i = H(I || q || u16(i) || 0xff || seed) for i = 0..p-1   (hash-sigs / RFC 8554 Appendix A)
    fn check_private_key<const N: usize>(w: u8) {
        type R<const N: usize> = RecHash<N, 64>;
        R::<N>::reset_log();
        let p = alg(w).construct_parameter::<R<N>>().unwrap();
        let id: [u8; 16] = kani::any();
        let q: [u8; 4] = kani::any();
        let sb: [u8; 32] = kani::any();
        let seed = Seed::<R<N>>::from(sb);
        let k = generate_private_key(id, q, seed, p);
        let n_chains = p.get_num_winternitz_chains() as usize;
        assert!(R::<N>::calls() == n_chains, "p hash calls");
        assert!(k.key.0.len() == n_chains && k.lms_tree_identifier == id && k.lms_leaf_identifier == q, "p chain start values, identifiers copied");
        let mut i = 0;
        while i < n_chains {
            let mut pre = [0u8; 64];
            pre[..16].copy_from_slice(&id);
            pre[16..20].copy_from_slice(&q);
            pre[20..22].copy_from_slice(&(i as u16).to_be_bytes());
            pre[22] = 0xff;
            pre[23..23 + N].copy_from_slice(&sb[..N]);
            assert!(R::<N>::pre_is(i, &pre[..23 + N]), "x_i pre-image == I || q || u16(i) || 0xff || seed (n bytes)");
            assert!(k.key[i].as_slice() == &R::<N>::out(i)[..N], "x_i == output i");
            i += 1;
        }
        kani::cover!(true, "reachable");
    }

    /// C08 / RFC 8554 Algorithm 1: K = H(I || q || D_PBLC || y_0 .. y_{p-1}),  y_i = chain_i(x_i, 0, 2^w - 1)
    fn check_public_key<const N: usize, const CAP: usize>(w: u8) {
        type R<const N: usize, const CAP: usize> = RecHashC<N, CAP>;
        R::<N, CAP>::reset_log();
        let p = alg(w).construct_parameter::<R<N, CAP>>().unwrap();
        let n_chains = p.get_num_winternitz_chains() as usize;
        let id: [u8; 16] = kani::any();
        let q: [u8; 4] = kani::any();
        let mut key = ArrayVec::new();
        let mut i = 0;
        while i < n_chains {
            let b: [u8; 32] = kani::any();
            key.push(ArrayVec::from_array_len(b, N));
            i += 1;
        }
        let sk = LmotsPrivateKey::<R<N, CAP>>::new(id, q, key, p);
        let pk = generate_public_key(&sk);
        assert!(R::<N, CAP>::chain_calls() == n_chains, "p chains");
        assert!(R::<N, CAP>::calls() == 1, "one final hash call");
        let mut pre = [0u8; CAP];
        pre[..16].copy_from_slice(&id);
        pre[16..20].copy_from_slice(&q);
        pre[20] = 0x80;
        pre[21] = 0x80;
        i = 0;
        while i < n_chains {
            let (cid, from, to) = R::<N, CAP>::chain_meta(i);
            assert!(cid == i && from == 0 && to == (1usize << w) - 1, "chain i runs from 0 to 2^w - 1");
            assert!(R::<N, CAP>::chain_start(i)[..N] == *sk.key[i].as_slice(), "chain i starts at x_i");
            pre[22 + i * N..22 + (i + 1) * N].copy_from_slice(&R::<N, CAP>::chain_out(i)[..N]);
            i += 1;
        }
        let hdr = R::<N, CAP>::chain_hdr();
        assert!(hdr[..16] == id && hdr[16..] == q, "chains are bound to I and q");
        assert!(R::<N, CAP>::pre_is(0, &pre[..22 + n_chains * N]), "K pre-image == I || q || D_PBLC || y_0 .. y_{p-1}");
        assert!(pk.key.as_slice() == &R::<N, CAP>::out(0)[..N] && pk.lms_tree_identifier == id && pk.lms_leaf_identifier == q, "K == output, identifiers copied");
        kani::cover!(true, "reachable");
    }

    macro_rules! h {
        ($name:ident, $body:expr, $unw:expr) => {
            #[kani::proof]
            #[kani::stub(zeroize::optimization_barrier, no_barrier)]
            #[kani::stub(<[u8; 32] as tinyvec::Array>::default, fast_default)]
            #[kani::unwind($unw)]
            fn $name() {
                $body;
            }
        };
    }
    // @h name=c08_ots_private_n16_w8 props=C08,C09,C01 tier=extended kind=proved cfg=w8 timeout=1800 funcs=lm_ots::keygen::generate_private_key contract="x_i = H(I||q||u16(i)||0xff||seed) for all i < p; every I/q/seed, every hash function; n=16, w=8 (p=18)"
    h!(c08_ots_private_n16_w8, check_private_key::<16>(8), 36);
    // @h name=c08_ots_private_n32_w8 props=C08,C09,C01 tier=extended kind=proved cfg=w8 timeout=3000 funcs=lm_ots::keygen::generate_private_key contract="same, n=32, w=8 (p=34)"
    h!(c08_ots_private_n32_w8, check_private_key::<32>(8), 40);
    // @h name=c08_ots_public_n16_w8 props=C08,C07,C01 tier=extended kind=proved cfg=w8 timeout=1800 funcs=lm_ots::keygen::generate_public_key contract="K = H(I||q||D_PBLC||y_0..y_{p-1}) with y_i = do_hash_chain(i, x_i, 0, 2^w-1) (callee by contract); n=16, w=8"
    h!(c08_ots_public_n16_w8, check_public_key::<16, 320>(8), 48);
    // @h name=c08_ots_public_n16_w4 props=C08,C07,C01 tier=extended kind=proved cfg=default timeout=3000 funcs=lm_ots::keygen::generate_public_key contract="same, n=16, w=4 (p=35)"
    h!(c08_ots_public_n16_w4, check_public_key::<16, 600>(4), 80);

    /// contract of build.rs: the generated capacities cover every parameter set the configured limits allow
    fn check_build_constants() {
        use crate::constants::*;
        let mut min_w = 8usize;
        let mut max_h = 0usize;
        let mut i = 0;
        while i < MAX_ALLOWED_HSS_LEVELS {
            if WINTERNITZ_PARAMETERS[i] < min_w { min_w = WINTERNITZ_PARAMETERS[i]; }
            if TREE_HEIGHTS[i] > max_h { max_h = TREE_HEIGHTS[i]; }
            i += 1;
        }
        assert!(MIN_WINTERNITZ_PARAMETER == min_w, "MIN_WINTERNITZ_PARAMETER is the smallest configured Winternitz parameter");
        assert!(MAX_TREE_HEIGHT == max_h, "MAX_TREE_HEIGHT is the largest configured height");
        assert!(MAX_NUM_WINTERNITZ_CHAINS == get_num_winternitz_chains(min_w, 32), "chain capacity covers the smallest allowed w at n = 32");
        assert!(MAX_ALLOWED_HSS_LEVELS >= 1 && MAX_ALLOWED_HSS_LEVELS <= REF_IMPL_MAX_ALLOWED_HSS_LEVELS, "level limit within the key format");
        // capacity of the HSS signature buffer: every level contributes one LMS signature with that level's largest allowed
        // parameters (RFC 8554 lengths at n = 32), every level but the first one LMS public key, plus the level word
        let mut cap = 4 + (MAX_ALLOWED_HSS_LEVELS - 1) * (24 + 32);
        i = 0;
        while i < MAX_ALLOWED_HSS_LEVELS {
            let (_u, _v, _ls, p) = crate::kani_support::spec_appendix_b(32, WINTERNITZ_PARAMETERS[i] as u32);
            cap += 4 + (4 + 32 * (p as usize + 1)) + 4 + 32 * TREE_HEIGHTS[i];
            i += 1;
        }
        assert!(MAX_HSS_SIGNATURE_LENGTH == cap, "HSS signature buffer = level word + per-level LMS signatures at the per-level limits + L-1 public keys");
        kani::cover!(true, "reachable");
    }
    // @h name=c14_build_constants_default props=C14 tier=quick kind=proved cfg=default funcs=build.rs contract="generated constants: MIN_WINTERNITZ_PARAMETER = min, MAX_TREE_HEIGHT = max, chain capacity for the smallest w (default build)"
    h!(c14_build_constants_default, check_build_constants(), 20);
    // @h name=c14_build_constants_L2small props=C14 tier=quick kind=proved cfg=L2small funcs=build.rs contract="same under limits 2 levels, heights (10,5), W (4,8)"
    h!(c14_build_constants_L2small, check_build_constants(), 20);
    // @h name=c14_ots_private_L2small_w4 props=C14 tier=thorough kind=proved cfg=L2smallbig timeout=2400 funcs=lm_ots::keygen::generate_private_key contract="mixed-limit build: a level that uses the smallest allowed Winternitz parameter (w=4, p=35 at n=16) fits the generated capacities (no capacity panic) and derives x_i as in the default build"
    h!(c14_ots_private_L2small_w4, check_private_key::<16>(4), 40);

    // ------------------------------------------------------------------ C08: chain starts for the LARGEST chain count (p = 265)
    // A checking hash: instead of logging 265 pre-images (the log size dominates CBMC's cost) every finalisation checks the
    // PRNG block layout on the spot against the expected (I, q, seed) and its own call counter, and returns a value that
    // encodes the call number. Constant-size state, so n = 32 / w = 1 - the only parameter set with more than 256 chains,
    // where the high byte of the 16-bit chain counter matters - is affordable.
    use core::sync::atomic::{AtomicU8, AtomicUsize, Ordering};
    use digest::{typenum::U32, FixedOutput, Output, OutputSizeUser, Update};
    static CK_EXPECT: [AtomicU8; 52] = [const { AtomicU8::new(0) }; 52]; // I(16) q(4) seed(32)
    static CK_CALLS: AtomicUsize = AtomicUsize::new(0);
    static CK_BAD: AtomicUsize = AtomicUsize::new(0);
    #[derive(Clone, Debug)]
    pub struct CheckHash32 {
        buf: [u8; 64],
        len: usize,
    }
    impl Default for CheckHash32 {
        fn default() -> Self {
            CheckHash32 { buf: [0u8; 64], len: 0 }
        }
    }
    impl PartialEq for CheckHash32 {
        fn eq(&self, _: &Self) -> bool {
            false
        }
    }
    impl CheckHash32 {
        fn out_of(k: usize) -> [u8; 32] {
            let mut o = [0xa5u8; 32];
            o[0] = k as u8;
            o[1] = (k >> 8) as u8;
            o[31] = (k as u8) ^ 0x3c;
            o
        }
        fn check(&mut self) -> [u8; 32] {
            let k = CK_CALLS.load(Ordering::Relaxed);
            let mut ok = self.len == 23 + 32 && self.buf[20] == (k >> 8) as u8 && self.buf[21] == k as u8 && self.buf[22] == 0xff;
            let mut i = 0;
            while i < 20 {
                ok = ok && self.buf[i] == CK_EXPECT[i].load(Ordering::Relaxed);
                i += 1;
            }
            i = 0;
            while i < 32 {
                ok = ok && self.buf[23 + i] == CK_EXPECT[20 + i].load(Ordering::Relaxed);
                i += 1;
            }
            if !ok {
                CK_BAD.fetch_add(1, Ordering::Relaxed);
            }
            CK_CALLS.store(k + 1, Ordering::Relaxed);
            self.len = 0;
            Self::out_of(k)
        }
    }
    impl Update for CheckHash32 {
        fn update(&mut self, data: &[u8]) {
            assert!(self.len + data.len() <= 64, "checking-hash buffer overflow (harness sizing)");
            self.buf[self.len..self.len + data.len()].copy_from_slice(data);
            self.len += data.len();
        }
    }
    impl OutputSizeUser for CheckHash32 {
        type OutputSize = U32;
    }
    impl FixedOutput for CheckHash32 {
        fn finalize_into(mut self, out: &mut Output<Self>) {
            let o = self.check();
            out.copy_from_slice(&o);
        }
    }
    impl HashChain for CheckHash32 {
        const OUTPUT_SIZE: u16 = 32;
        const BLOCK_SIZE: u16 = 64;
        fn finalize(mut self) -> ArrayVec<[u8; MAX_HASH_SIZE]> {
            ArrayVec::from_array_len(self.check(), 32)
        }
        fn finalize_reset(&mut self) -> ArrayVec<[u8; MAX_HASH_SIZE]> {
            ArrayVec::from_array_len(self.check(), 32)
        }
    }
    // @h name=c08_ots_private_n32_w1_idx props=C08,C09,C01 tier=extended kind=bounded cfg=default timeout=1200 funcs=lm_ots::keygen::generate_private_key note="one concrete (I, q, seed); all 265 chain indices" contract="n=32, w=1 (p=265, the only set with more than 256 chains): hash call k absorbs exactly I || q || u16(k) || 0xff || seed for k = 0..264 and x_k is the k-th output; checking hash (layout checked at every finalisation)"
    #[kani::proof]
    #[kani::stub(zeroize::optimization_barrier, no_barrier)]
    #[kani::stub(<[u8; 32] as tinyvec::Array>::default, fast_default)]
    #[kani::unwind(270)]
    fn c08_ots_private_n32_w1_idx() {
        CK_CALLS.store(0, Ordering::Relaxed);
        CK_BAD.store(0, Ordering::Relaxed);
        let p = alg(1).construct_parameter::<CheckHash32>().unwrap();
        // concrete (I, q, seed): with symbolic values CBMC needed > 17 GB for the 265 calls; how the pre-image depends on
        // I / q / seed is the subject of c08_ots_private_n16_w8 (symbolic) and of the Verus unit v6_keygen (unbounded)
        let mut id = [0u8; 16];
        let q: [u8; 4] = [0x00, 0x01, 0xfe, 0x7f];
        let mut sb = [0u8; 32];
        let mut i = 0;
        while i < 32 {
            sb[i] = (i as u8).wrapping_mul(37) ^ 0xc3;
            if i < 16 {
                id[i] = (i as u8).wrapping_mul(11) ^ 0x5a;
            }
            i += 1;
        }
        i = 0;
        while i < 16 {
            CK_EXPECT[i].store(id[i], Ordering::Relaxed);
            i += 1;
        }
        i = 0;
        while i < 4 {
            CK_EXPECT[16 + i].store(q[i], Ordering::Relaxed);
            i += 1;
        }
        i = 0;
        while i < 32 {
            CK_EXPECT[20 + i].store(sb[i], Ordering::Relaxed);
            i += 1;
        }
        let seed = Seed::<CheckHash32>::from(sb);
        let k = generate_private_key(id, q, seed, p);
        assert!(p.get_num_winternitz_chains() == 265, "n=32, w=1: p = 265");
        assert!(CK_CALLS.load(Ordering::Relaxed) == 265, "p hash calls");
        assert!(CK_BAD.load(Ordering::Relaxed) == 0, "every call absorbed I || q || u16(k) || 0xff || seed with its own k");
        assert!(k.key.0.len() == 265, "p chain start values");
        i = 0;
        while i < 265 {
            let o = CheckHash32::out_of(i);
            assert!(k.key[i].len() == 32 && k.key[i][0] == o[0] && k.key[i][1] == o[1] && k.key[i][31] == o[31], "x_k == output of call k");
            i += 1;
        }
        kani::cover!(true, "reachable");
    }
}
