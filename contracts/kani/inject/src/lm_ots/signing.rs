// ---- injected by /verif (insert-only) ----
#[cfg(kani)]
pub(crate) mod kani_verif {
    use super::*;
    use crate::kani_support::*;

    fn alg(w: u8) -> LmotsAlgorithm {
        match w { 1 => LmotsAlgorithm::LmotsW1, 2 => LmotsAlgorithm::LmotsW2, 4 => LmotsAlgorithm::LmotsW4, _ => LmotsAlgorithm::LmotsW8 }
    }

    /// RFC 8554 Algorithm 3 (LM-OTS signing):  Q = H(I || q || D_MESG || C || msg);  y_i = chain_i(x_i, 0, a_i) with
    /// a_i = coef(Q || Cksm(Q), i, w);  signature = u32(type) || C || y_0 .. y_{p-1}
    fn check_sign<const N: usize, const CAP: usize, const M: usize>(w: u8) {
        type R<const N: usize, const CAP: usize> = RecHashC<N, CAP>;
        R::<N, CAP>::reset_log();
        let p = alg(w).construct_parameter::<R<N, CAP>>().unwrap();
        let n_chains = p.get_num_winternitz_chains() as usize;
        let id: [u8; 16] = kani::any();
        let q: [u8; 4] = kani::any();
        let mut key = ArrayVec::new();
        let mut i = 0;
        while i < n_chains {
            let b: [u8; 32] = kani::any();
            key.push(ArrayVec::from_array_len(b, N));
            i += 1;
        }
        let sk = LmotsPrivateKey::<R<N, CAP>>::new(id, q, key, p);
        let cb: [u8; 32] = kani::any();
        let c = ArrayVec::from_array_len(cb, N);
        let msg: [u8; M] = kani::any();
        let sig = LmotsSignature::sign(&sk, &c, &msg);

        assert!(R::<N, CAP>::calls() == 1, "one message hash");
        let mut pre = [0u8; CAP];
        pre[..16].copy_from_slice(&id);
        pre[16..20].copy_from_slice(&q);
        pre[20] = 0x81;
        pre[21] = 0x81;
        pre[22..22 + N].copy_from_slice(&cb[..N]);
        pre[22 + N..22 + N + M].copy_from_slice(&msg);
        assert!(R::<N, CAP>::pre_is(0, &pre[..22 + N + M]), "Q pre-image == I || q || D_MESG || C || message");
        let qd = R::<N, CAP>::out(0);
        // digits of Q || Cksm(Q) by the RFC formulas, left shift of the parameter set
        let mut qc = [0u8; 34];
        qc[..N].copy_from_slice(&qd[..N]);
        let ck = spec_cksm(&qd[..N], N as u32, w as u32, p.get_checksum_left_shift() as u32);
        qc[N] = (ck >> 8) as u8;
        qc[N + 1] = (ck & 0xff) as u8;
        assert!(R::<N, CAP>::chain_calls() == n_chains, "p chains");
        assert!(sig.signature_data.len() == n_chains, "p chain values in the signature");
        let mut total: u32 = 0;
        i = 0;
        while i < n_chains {
            let a = spec_coef(&qc, i as u32, w as u32) as usize;
            let (cid, from, to) = R::<N, CAP>::chain_meta(i);
            assert!(cid == i && from == 0 && to == a, "chain i runs from 0 to a_i = coef(Q || Cksm(Q), i, w)");
            assert!(R::<N, CAP>::chain_start(i)[..N] == *sk.key[i].as_slice(), "chain i starts at x_i");
            assert!(sig.signature_data[i].as_slice() == &R::<N, CAP>::chain_out(i)[..N], "y_i is the chain result");
            total += a as u32;
            i += 1;
        }
        let hdr = R::<N, CAP>::chain_hdr();
        assert!(hdr[..16] == id && hdr[16..] == q, "chains are bound to I and q");
        assert!(sig.signature_randomizer.as_slice() == &cb[..N], "randomizer C copied into the signature");
        assert!(sig.lmots_parameter == p, "type of the private key");
        assert!(sig.hash_iterations as u32 == total, "reported hash iterations == sum of a_i");
        // serialisation: u32(type) || C || y_0 .. y_{p-1}
        let bin = sig.to_binary_representation();
        assert!(bin.len() == 4 + N * (n_chains + 1), "length 4 + n(p+1)");
        assert!(bin[..4] == p.get_type_id().to_be_bytes() && bin[4..4 + N] == cb[..N], "type code and C");
        i = 0;
        while i < n_chains {
            assert!(bin[4 + N + i * N..4 + N + (i + 1) * N] == *sig.signature_data[i].as_slice(), "y_i at offset 4 + n + i*n");
            i += 1;
        }
        // parsing the serialisation gives the same fields back (C02: signer and verifier agree on the layout)
        let parsed = InMemoryLmotsSignature::<R<N, CAP>>::new(bin.as_slice()).unwrap();
        assert!(parsed == sig, "InMemoryLmotsSignature::new(to_binary_representation(sig)) == sig");
        kani::cover!(total > 0, "non-trivial digits reachable");
    }

    macro_rules! h {
        ($name:ident, $body:expr, $unw:expr) => {
            #[kani::proof]
            #[kani::stub(zeroize::optimization_barrier, no_barrier)]
            #[kani::stub(<[u8; 32] as tinyvec::Array>::default, fast_default)]
            #[kani::unwind($unw)]
            fn $name() {
                $body;
            }
        };
    }
    // @h name=c07_ots_sign_n16_w8 props=C07,C12,C01,C02 tier=extended kind=proved cfg=w8 timeout=2400 funcs=LmotsSignature::sign;LmotsSignature::sign_core;LmotsSignature::calculate_signature;LmotsSignature::calculate_message_hash;LmotsSignature::to_binary_representation;InMemoryLmotsSignature::new contract="RFC 8554 Alg. 3: Q = H(I||q||D_MESG||C||msg), y_i = do_hash_chain(i, x_i, 0, coef(Q||Cksm(Q), i, w)), bytes = u32(type)||C||y_0..y_{p-1}; every key/C/5-byte message, every hash function; n=16, w=8"
    h!(c07_ots_sign_n16_w8, check_sign::<16, 64, 5>(8), 36);
    // @h name=c07_ots_sign_n16_w4 props=C07,C12,C01,C02 tier=extended kind=proved cfg=default timeout=3000 funcs=LmotsSignature::sign;LmotsSignature::sign_core;LmotsSignature::calculate_signature contract="same, n=16, w=4 (p=35)"
    h!(c07_ots_sign_n16_w4, check_sign::<16, 64, 5>(4), 40);
    // @h name=c07_ots_sign_n24_w8 props=C07,C12,C01,C02 tier=extended kind=proved cfg=w8 timeout=3000 funcs=LmotsSignature::sign;LmotsSignature::sign_core;LmotsSignature::calculate_signature contract="same, n=24, w=8 (p=26), empty message"
    h!(c07_ots_sign_n24_w8, check_sign::<24, 64, 0>(8), 36);

    // ------------------------------------------------------------------ C15: fast-verify message hash
    // optimize_message_hash (randomizer search on scoped threads, OsRng) is replaced by "write arbitrary bytes into the
    // slice it was given": a sound abstraction of every schedule and RNG draw, because the function only receives
    // shared borrows plus `&mut [u8]` to the trailer (safe Rust).
    #[cfg(feature = "fast_verify")]
    pub fn stub_optimize<H: HashChain>(_hasher: &H, _lmots_parameter: &LmotsParameter<H>, randomizer: &mut [u8], _message: Option<&[u8]>) {
        let mut i = 0;
        while i < randomizer.len() {
            randomizer[i] = kani::any();
            i += 1;
        }
    }
    #[cfg(feature = "fast_verify")]
    fn check_fast_sign<const N: usize, const M: usize>(w: u8) {
        type R<const N: usize> = RecHashC<N, 96>;
        R::<N>::reset_log();
        let p = alg(w).construct_parameter::<R<N>>().unwrap();
        let n_chains = p.get_num_winternitz_chains() as usize;
        let id: [u8; 16] = kani::any();
        let q: [u8; 4] = kani::any();
        let mut key = ArrayVec::new();
        let mut i = 0;
        while i < n_chains {
            key.push(ArrayVec::from_array_len([0u8; 32], N));
            i += 1;
        }
        let sk = LmotsPrivateKey::<R<N>>::new(id, q, key, p);
        let cb: [u8; 32] = kani::any();
        let mut c = ArrayVec::from_array_len(cb, N);
        let mut msg: [u8; M] = kani::any();
        let mut j = M - N;
        while j < M {
            msg[j] = 0;
            j += 1;
        }
        let before = msg;
        let sig = LmotsSignature::sign_fast_verify(&sk, &mut c, None, Some(&mut msg));
        assert!(msg[..M - N] == before[..M - N], "nothing but the last n bytes of the message changes");
        assert!(c.as_slice() == &cb[..N] && sig.signature_randomizer.as_slice() == &cb[..N], "the signature randomizer is the seed-derived one");
        // the signature is the ordinary signature of the returned message: same message hash pre-image
        let mut pre = [0u8; 96];
        pre[..16].copy_from_slice(&id);
        pre[16..20].copy_from_slice(&q);
        pre[20] = 0x81;
        pre[21] = 0x81;
        pre[22..22 + N].copy_from_slice(&cb[..N]);
        pre[22 + N..22 + N + M].copy_from_slice(&msg);
        assert!(R::<N>::calls() == 1 && R::<N>::pre_is(0, &pre[..22 + N + M]), "Q = H(I || q || D_MESG || C || returned message)");
        assert!(R::<N>::chain_calls() == n_chains && sig.signature_data.len() == n_chains, "then the ordinary p chains");
        kani::cover!(msg[M - 1] != 0, "trailer written");
    }
    // @h name=c15_fast_sign_n16_w8 props=C15 tier=quick kind=proved cfg=fastverify timeout=2400 funcs=LmotsSignature::sign_fast_verify;LmotsSignature::calculate_message_hash_fast_verify;LmotsSignature::sign_core contract="sign_fast_verify on a mutable message: only the last n bytes change, C unchanged, and the message hash is H(I||q||D_MESG||C||returned message) followed by the ordinary chains (= ordinary signature of the returned message); randomizer search abstracted to arbitrary trailer bytes (all schedules); n=16, w=8, 24-byte message"
    #[cfg(feature = "fast_verify")]
    #[kani::proof]
    #[kani::stub(zeroize::optimization_barrier, no_barrier)]
    #[kani::stub(<[u8; 32] as tinyvec::Array>::default, fast_default)]
    #[kani::stub(crate::lm_ots::signing::optimize_message_hash, stub_optimize)]
    #[kani::unwind(40)]
    fn c15_fast_sign_n16_w8() {
        check_fast_sign::<16, 24>(8);
    }
}
