// ---- injected by /verif (insert-only) ----
#[cfg(kani)]
pub(crate) mod kani_verif {
    use super::*;
    use crate::constants::ILEN;
    use crate::hasher::sha256::{Sha256_192, Sha256_256};
    use crate::hss::reference_impl_private_key::{ReferenceImplPrivateKey, Seed, SeedAndLmsTreeIdentifier};
    use crate::kani_support::*;
    use crate::lm_ots::parameters::LmotsAlgorithm;
    use crate::lms::definitions::LmsPrivateKey;
    use crate::lms::parameters::LmsAlgorithm;
    use zeroize::{Zeroize, ZeroizeOnDrop};

    // compile-time obligations: every secret-bearing type is wiped on drop (derive(ZeroizeOnDrop) generates Drop -> zeroize())
    fn zod<T: ZeroizeOnDrop>() {}
    fn z<T: Zeroize>() {}
    #[allow(dead_code)]
    fn trait_obligations<H: HashChain>() {
        zod::<Seed<H>>();
        zod::<SeedAndLmsTreeIdentifier<H>>();
        zod::<ReferenceImplPrivateKey<H>>();
        zod::<LmsPrivateKey<H>>();
        zod::<LmotsPrivateKey<H>>();
        z::<Seed<H>>();
        z::<SeedAndLmsTreeIdentifier<H>>();
        z::<ReferenceImplPrivateKey<H>>();
        z::<LmsPrivateKey<H>>();
        z::<LmotsPrivateKey<H>>();
    }

    fn any_seed<H: HashChain>() -> Seed<H> {
        let b: [u8; 32] = kani::any();
        Seed::from(b) // fills the whole 32-byte backing buffer, also beyond H::OUTPUT_SIZE
    }
    // @h props=C16 tier=quick kind=proved cfg=w8 funcs=LmotsPrivateKey::zeroize;ArrayVecZeroize::zeroize contract="after zeroize() every chain value (whole capacity, all MAX_NUM_WINTERNITZ_CHAINS nodes, all 32 bytes each) and both identifiers are zero; symbolic contents"
    #[kani::proof]
    #[kani::stub(zeroize::optimization_barrier, no_barrier)]
    #[kani::stub(<[u8; 32] as tinyvec::Array>::default, fast_default)]
    #[kani::unwind(40)]
    fn c16_lmots_private_key() {
        type H = Sha256_256;
        let p = LmotsAlgorithm::LmotsW8.construct_parameter::<H>().unwrap();
        let mut key = ArrayVec::new();
        let mut i = 0;
        while i < p.get_num_winternitz_chains() {
            let b: [u8; 32] = kani::any();
            key.push(ArrayVec::from(b));
            i += 1;
        }
        let mut k = LmotsPrivateKey::<H>::new(kani::any(), kani::any(), key, p);
        k.zeroize();
        assert!(k.lms_tree_identifier == [0u8; ILEN] && k.lms_leaf_identifier == [0u8; 4], "identifiers wiped");
        let inner = k.key.0.into_inner();
        let mut j = 0;
        while j < inner.len() {
            let node = inner[j].into_inner();
            assert!(node == [0u8; 32], "every byte of every chain value (whole capacity) is zero");
            j += 1;
        }
        kani::cover!(true, "reachable");
    }

    fn check_lms_private_key<H: HashChain>() {
        let seed = any_seed::<H>();
        let p = HssParameterPair::<H>::new();
        let mut k = LmsPrivateKey::<H>::new(seed, kani::any(), kani::any(), p.0, p.1);
        k.zeroize();
        assert!(k.lms_tree_identifier == [0u8; ILEN] && k.used_leafs_index == 0, "identifier and leaf index wiped");
        assert!(k.seed == Seed::<H>::default(), "seed equals the all-zero seed (derived PartialEq compares the whole backing buffer)");
        kani::cover!(true, "reachable");
    }
    struct HssParameterPair<H: HashChain>(crate::lm_ots::parameters::LmotsParameter<H>, crate::lms::parameters::LmsParameter<H>);
    impl<H: HashChain> HssParameterPair<H> {
        fn new() -> Self {
            HssParameterPair(LmotsAlgorithm::LmotsW8.construct_parameter().unwrap(), LmsAlgorithm::LmsH5.construct_parameter().unwrap())
        }
    }

    // @h props=C16 tier=quick kind=proved cfg=w8 funcs=LmsPrivateKey::zeroize;Seed::zeroize contract="after zeroize() the seed (whole 32-byte backing buffer, n=24 so 8 bytes lie beyond OUTPUT_SIZE), tree identifier and leaf index are zero; symbolic contents"
    #[kani::proof]
    #[kani::stub(zeroize::optimization_barrier, no_barrier)]
    #[kani::stub(<[u8; 32] as tinyvec::Array>::default, fast_default)]
    #[kani::unwind(40)]
    fn c16_lms_private_key() {
        check_lms_private_key::<Sha256_192>();
    }

    // @h props=C16 tier=quick kind=proved cfg=w8 funcs=Seed::zeroize;SeedAndLmsTreeIdentifier::zeroize;ReferenceImplPrivateKey::zeroize contract="after zeroize(): Seed == all-zero seed over the whole backing buffer; SeedAndLmsTreeIdentifier seed and identifier zero; ReferenceImplPrivateKey counter, parameter bytes and seed zero (n=24)"
    #[kani::proof]
    #[kani::stub(zeroize::optimization_barrier, no_barrier)]
    #[kani::stub(<[u8; 32] as tinyvec::Array>::default, fast_default)]
    #[kani::unwind(60)]
    fn c16_seed_types() {
        type H = Sha256_192;
        let mut s = any_seed::<H>();
        s.zeroize();
        assert!(s == Seed::<H>::default(), "Seed wiped over its whole backing buffer");
        let mut si = SeedAndLmsTreeIdentifier::<H>::default();
        si.seed = any_seed::<H>();
        si.lms_tree_identifier = kani::any();
        si.zeroize();
        assert!(si.seed == Seed::<H>::default() && si.lms_tree_identifier == [0u8; ILEN], "SeedAndLmsTreeIdentifier wiped");
        let mut rk = ReferenceImplPrivateKey::<H>::default();
        rk.seed = any_seed::<H>();
        rk.zeroize();
        assert!(rk.seed == Seed::<H>::default(), "ReferenceImplPrivateKey seed wiped");
        let blob = rk.to_binary_representation();
        assert!(blob.iter().all(|b| *b == 0), "zeroized key serialises to zero bytes (counter, parameter bytes, seed)");
        kani::cover!(true, "reachable");
    }
}
