// ---- injected by /verif (insert-only): verification support module, compiled under cfg(kani) only ----
#[cfg(kani)]
pub(crate) mod kani_support;

// ---- exports for the integration-test harnesses (tests/kani_drop.rs): the crate itself forbids unsafe code, so the
// effect of the implicit drop (value in ManuallyDrop, ManuallyDrop::drop, then look at the storage) can only be observed
// from another crate. Everything here exists under cfg(kani) only.
#[cfg(kani)]
pub mod kani_export {
    use crate::hasher::sha256::Sha256_192;
    pub use crate::hss::reference_impl_private_key::{ReferenceImplPrivateKey, SeedAndLmsTreeIdentifier};
    pub use crate::kani_support::{fast_default, no_barrier};
    pub use crate::lm_ots::definitions::LmotsPrivateKey;
    pub use crate::lms::definitions::LmsPrivateKey;
    use crate::Seed;
    pub type HD = Sha256_192; // n = 24: 8 bytes of the 32-byte seed buffer lie beyond OUTPUT_SIZE

    pub fn any_seed() -> Seed<HD> {
        let b: [u8; 32] = kani::any();
        Seed::from(b)
    }
    pub fn seed_is_zero(s: &Seed<HD>) -> bool {
        *s == Seed::<HD>::default() // derived PartialEq: the whole backing buffer
    }
    pub fn any_seed_and_id() -> SeedAndLmsTreeIdentifier<HD> {
        let id: [u8; 16] = kani::any();
        SeedAndLmsTreeIdentifier::new(&any_seed(), &id)
    }
    pub fn seed_and_id_is_zero(s: &SeedAndLmsTreeIdentifier<HD>) -> bool {
        seed_is_zero(&s.seed) && s.lms_tree_identifier == [0u8; 16]
    }
    pub fn any_ref_key() -> ReferenceImplPrivateKey<HD> {
        let mut k = ReferenceImplPrivateKey::<HD>::default();
        k.seed = any_seed();
        k.compressed_used_leafs_indexes = crate::hss::reference_impl_private_key::CompressedUsedLeafsIndexes::new(kani::any());
        k
    }
    pub fn ref_key_is_zero(k: &ReferenceImplPrivateKey<HD>) -> bool {
        seed_is_zero(&k.seed)
    }
    pub fn any_lms_private_key() -> LmsPrivateKey<HD> {
        let ots = crate::LmotsAlgorithm::LmotsW8.construct_parameter::<HD>().unwrap();
        let lms = crate::LmsAlgorithm::LmsH5.construct_parameter::<HD>().unwrap();
        LmsPrivateKey::new(any_seed(), kani::any(), kani::any(), ots, lms)
    }
    pub fn lms_private_key_is_zero(k: &LmsPrivateKey<HD>) -> bool {
        seed_is_zero(&k.seed) && k.lms_tree_identifier == [0u8; 16] && k.used_leafs_index == 0
    }
    pub fn any_lmots_private_key() -> LmotsPrivateKey<HD> {
        let p = crate::LmotsAlgorithm::LmotsW8.construct_parameter::<HD>().unwrap();
        let mut key = tinyvec::ArrayVec::new();
        let mut i = 0;
        while i < p.get_num_winternitz_chains() {
            let b: [u8; 32] = kani::any();
            key.push(tinyvec::ArrayVec::from(b));
            i += 1;
        }
        LmotsPrivateKey::new(kani::any(), kani::any(), key, p)
    }
    pub fn lmots_private_key_is_zero(k: &LmotsPrivateKey<HD>) -> bool {
        let inner = k.key.0.into_inner();
        let mut ok = k.lms_tree_identifier == [0u8; 16] && k.lms_leaf_identifier == [0u8; 4];
        let mut j = 0;
        while j < inner.len() {
            ok = ok && inner[j].into_inner() == [0u8; 32];
            j += 1;
        }
        ok
    }
}
