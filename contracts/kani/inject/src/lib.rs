// ---- injected by /verif (insert-only): verification support module, compiled under cfg(kani) only ----
#[cfg(kani)]
pub(crate) mod kani_support;
