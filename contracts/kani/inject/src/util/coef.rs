// ---- injected by /verif (insert-only) ----
#[cfg(kani)]
pub(crate) mod kani_verif {
    use super::*;
    use crate::kani_support::*;

    // @h props=C12,C07,C02! tier=quick kind=proved funcs=coef;coef_helper contract="coef(S,i,w) == RFC 8554 3.1.3 formula for every byte string of 34 bytes, every digit index and w in {1,2,4,8} (loop-free, complete); coef_helper returns the same (index, shift, mask)"
    #[kani::proof]
    fn c12_coef_all() {
        let s: [u8; 34] = kani::any();
        let w: u8 = kani::any();
        kani::assume(w == 1 || w == 2 || w == 4 || w == 8);
        let i: u16 = kani::any();
        kani::assume((i as u32) < (34 * 8) / w as u32);
        let r = coef(&s, i, w);
        assert!(r == spec_coef(&s, i as u32, w as u32) as u64, "coef equals the RFC 8554 section 3.1.3 formula");
        let (index, shift, mask) = coef_helper(i, w);
        assert!(((s[index] as u64 >> shift) & mask) == r, "coef_helper describes the same digit");
        assert!(index == ((i as usize) * (w as usize)) / 8 && mask == (1u64 << w) - 1, "coef_helper index and mask");
        kani::cover!(r == 200, "large digit reachable");
        kani::cover!(w == 1 && i == 271, "last bit reachable");
    }
}
