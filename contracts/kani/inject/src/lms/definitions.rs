// ---- injected by /verif (insert-only) ----
#[cfg(kani)]
pub(crate) mod kani_verif {
    use super::*;
    use crate::hasher::sha256::{Sha256_128, Sha256_192};
    use crate::kani_support::*;

    /// RFC 8554 section 5.3: LMS public key = u32str(lms type) || u32str(lmots type) || I || T[1]
    fn check_pub_bytes<H: HashChain, const N: usize>() {
        let lmots = LmotsAlgorithm::from(any_lmots_code() as u32).construct_parameter::<H>().unwrap();
        let lms = LmsAlgorithm::from(any_lms_code(true) as u32).construct_parameter::<H>().unwrap();
        let kb: [u8; 32] = kani::any();
        let id: [u8; ILEN] = kani::any();
        let mut pk = LmsPublicKey::<H>::default();
        pk.key = ArrayVec::from_array_len(kb, N);
        pk.lms_tree_identifier = id;
        pk.lmots_parameter = lmots;
        pk.lms_parameter = lms;
        let b = pk.to_binary_representation();
        assert!(b.len() == 24 + N, "length 4 + 4 + 16 + n");
        assert!(b[..4] == lms.get_type_id().to_be_bytes() && b[4..8] == lmots.get_type_id().to_be_bytes(), "LMS type then LM-OTS type, big-endian");
        assert!(b[8..24] == id && b[24..] == kb[..N], "I then T[1]");
        let parsed = InMemoryLmsPublicKey::<H>::new(b.as_slice()).unwrap();
        assert!(parsed == pk && parsed.as_slice() == b.as_slice(), "parse(serialise(pk)) == pk");
        kani::cover!(true, "reachable");
    }
    // @h props=C07,C08!,C02 tier=quick kind=proved cfg=default funcs=LmsPublicKey::to_binary_representation;InMemoryLmsPublicKey::new contract="bytes == u32(lms type)||u32(lmots type)||I||T[1], length 24+n, parses back to the same key; every type code pair, I, key; n=16 and n=24"
    #[kani::proof]
    #[kani::stub(<[u8; 32] as tinyvec::Array>::default, fast_default)]
    #[kani::unwind(60)]
    fn c07_lms_pub_bytes() {
        check_pub_bytes::<Sha256_128, 16>();
        check_pub_bytes::<Sha256_192, 24>();
    }
}
