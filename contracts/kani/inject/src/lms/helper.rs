// ---- injected by /verif (insert-only) ----
#[cfg(kani)]
pub(crate) mod kani_verif {
    use super::*;
    use crate::constants::{LmsLeafIdentifier, LmsTreeIdentifier, ILEN};
    use crate::kani_support::*;
    use crate::lm_ots::definitions::{LmotsPrivateKey, LmotsPublicKey};
    use crate::lm_ots::parameters::{LmotsAlgorithm, LmotsParameter};
    use crate::lms::parameters::LmsAlgorithm;
    use crate::Seed;
    use core::sync::atomic::{AtomicU8, AtomicUsize, Ordering};

    // ---- contract stubs for the LM-OTS key generation (their bodies are checked in lm_ots/keygen.rs: c08_ots_*)
    // generate_private_key: returns a key that only carries (I, q); generate_public_key: returns a fresh K per leaf q, logged.
    static LEAF_K: [AtomicU8; 64 * 32] = [const { AtomicU8::new(0) }; 64 * 32];
    static LEAF_K_CALLS: AtomicUsize = AtomicUsize::new(0);
    pub fn stub_ots_private<H: HashChain>(
        lms_tree_identifier: LmsTreeIdentifier,
        lms_leaf_identifier: LmsLeafIdentifier,
        _seed: Seed<H>,
        lmots_parameter: LmotsParameter<H>,
    ) -> LmotsPrivateKey<H> {
        LmotsPrivateKey::new(lms_tree_identifier, lms_leaf_identifier, ArrayVec::new(), lmots_parameter)
    }
    pub fn stub_ots_public<H: HashChain>(private_key: &LmotsPrivateKey<H>) -> LmotsPublicKey<H> {
        let q = u32::from_be_bytes(private_key.lms_leaf_identifier) as usize;
        assert!(q < 64, "harness sizing");
        LEAF_K_CALLS.fetch_add(1, Ordering::Relaxed);
        let k: [u8; 32] = kani::any();
        let mut i = 0;
        while i < 32 {
            LEAF_K[q * 32 + i].store(k[i], Ordering::Relaxed);
            i += 1;
        }
        LmotsPublicKey::new(
            private_key.lms_tree_identifier,
            private_key.lms_leaf_identifier,
            ArrayVec::from_array_len(k, H::OUTPUT_SIZE as usize),
            private_key.lmots_parameter,
        )
    }
    fn leaf_k(q: usize) -> [u8; 32] {
        let mut b = [0u8; 32];
        let mut i = 0;
        while i < 32 {
            b[i] = LEAF_K[q * 32 + i].load(Ordering::Relaxed);
            i += 1;
        }
        b
    }

    /// RFC 8554 section 5.3 / hash-sigs: T[r] = H(I || u32(r) || D_LEAF || K_{r - 2^h}) for leaves,
    /// T[r] = H(I || u32(r) || D_INTR || T[2r] || T[2r+1]) otherwise; whole tree of height h, no aux data
    fn check_tree<const N: usize>(lms: LmsAlgorithm, h: u32) {
        type R<const N: usize> = RecHash<N, 96>;
        R::<N>::reset_log();
        LEAF_K_CALLS.store(0, Ordering::Relaxed);
        let id: [u8; ILEN] = kani::any();
        let sb: [u8; 32] = kani::any();
        let key = LmsPrivateKey::<R<N>>::new(
            Seed::from(sb),
            id,
            0,
            LmotsAlgorithm::LmotsW8.construct_parameter().unwrap(),
            lms.construct_parameter().unwrap(),
        );
        let root = get_tree_element(1, &key, &mut None);
        let leaves = 1usize << h;
        assert!(R::<N>::calls() == 2 * leaves - 1, "one hash per node");
        assert!(LEAF_K_CALLS.load(Ordering::Relaxed) == leaves, "one LM-OTS public key per leaf");
        // the recursion finishes children before parents (post-order); collect the node value of every index
        let mut t = [[0u8; 32]; 64];
        let mut seen = [false; 64];
        let mut k = 0;
        while k < 2 * leaves - 1 {
            let (len, pre) = R::<N>::pre(k);
            let r = u32::from_be_bytes([pre[16], pre[17], pre[18], pre[19]]) as usize;
            assert!(pre[..16] == id, "node pre-image starts with I");
            assert!(r >= 1 && r < 2 * leaves && !seen[r], "every node index exactly once");
            if r >= leaves {
                assert!(len == 22 + N && pre[20] == 0x82 && pre[21] == 0x82, "leaf: I || u32(r) || D_LEAF || K");
                assert!(pre[22..22 + N] == leaf_k(r - leaves)[..N], "leaf r uses the LM-OTS public key of leaf number r - 2^h");
            } else {
                assert!(len == 22 + 2 * N && pre[20] == 0x83 && pre[21] == 0x83, "interior: I || u32(r) || D_INTR || T[2r] || T[2r+1]");
                assert!(seen[2 * r] && seen[2 * r + 1], "children computed first");
                assert!(pre[22..22 + N] == t[2 * r][..N] && pre[22 + N..22 + 2 * N] == t[2 * r + 1][..N], "children in order left, right");
            }
            t[r] = R::<N>::out(k);
            seen[r] = true;
            k += 1;
        }
        assert!(root.len() == N && root.as_slice() == &t[1][..N], "result is T[1]");
        kani::cover!(true, "reachable");
    }

    // @h props=C08,C07,C01,C10 tier=extended kind=bounded cfg=w8 timeout=2400 funcs=get_tree_element note="complete 4-leaf tree (hook height 2): every node of the tree, symbolic I/seed, every hash function; taller trees only via the uniform per-node code" contract="T[r] = H(I||u32(r)||D_LEAF||K_{r-2^h}) / H(I||u32(r)||D_INTR||T[2r]||T[2r+1]), one hash per node, result T[1]; leaf LM-OTS keys by contract (c08_ots_*); h=2, n=16"
    #[kani::proof]
    #[kani::stub(zeroize::optimization_barrier, no_barrier)]
    #[kani::stub(<[u8; 32] as tinyvec::Array>::default, fast_default)]
    #[kani::stub(crate::lm_ots::keygen::generate_private_key, stub_ots_private)]
    #[kani::stub(crate::lm_ots::keygen::generate_public_key, stub_ots_public)]
    #[kani::unwind(40)]
    fn c08_tree_h2_n16() {
        check_tree::<16>(LmsAlgorithm::LmsH2, 2);
    }
    // @h props=C08,C07,C01,C10 tier=extended kind=bounded cfg=w8big timeout=3600 funcs=get_tree_element note="complete 32-leaf tree" contract="same, h=5, n=16 (63 nodes)"
    #[kani::proof]
    #[kani::stub(zeroize::optimization_barrier, no_barrier)]
    #[kani::stub(<[u8; 32] as tinyvec::Array>::default, fast_default)]
    #[kani::stub(crate::lm_ots::keygen::generate_private_key, stub_ots_private)]
    #[kani::stub(crate::lm_ots::keygen::generate_public_key, stub_ots_public)]
    #[kani::unwind(70)]
    fn c08_tree_h5_n16() {
        check_tree::<16>(LmsAlgorithm::LmsH5, 5);
    }
}
