// ---- injected by /verif (insert-only) ----
#[cfg(kani)]
pub(crate) mod kani_verif {
    use super::*;
    use crate::constants::ILEN;
    use crate::hasher::sha256::Sha256_128;
    use crate::kani_support::*;
    use crate::constants::MAX_LMOTS_SIGNATURE_LENGTH;
    use crate::lm_ots::parameters::LmotsParameter;
    use crate::lms::helper::kani_verif::stub_ots_private;
    use crate::Seed;
    use core::sync::atomic::{AtomicU8, AtomicUsize, Ordering};

    type H = Sha256_128;
    const N: usize = 16;

    // ---- contract stub for get_tree_element (body checked by c08_tree_*): logs the requested node index, returns a fresh node
    static NODE_REQ: [AtomicUsize; 32] = [const { AtomicUsize::new(0) }; 32];
    static NODE_VAL: [AtomicU8; 32 * 32] = [const { AtomicU8::new(0) }; 32 * 32];
    static NODE_CALLS: AtomicUsize = AtomicUsize::new(0);
    pub fn stub_tree_element<H: HashChain>(
        index: usize,
        _private_key: &LmsPrivateKey<H>,
        _aux_data: &mut Option<MutableExpandedAuxData>,
    ) -> ArrayVec<[u8; MAX_HASH_SIZE]> {
        let k = NODE_CALLS.fetch_add(1, Ordering::Relaxed);
        assert!(k < 32, "harness sizing");
        NODE_REQ[k].store(index, Ordering::Relaxed);
        let v: [u8; 32] = kani::any();
        let mut i = 0;
        while i < 32 {
            NODE_VAL[k * 32 + i].store(v[i], Ordering::Relaxed);
            i += 1;
        }
        ArrayVec::from_array_len(v, H::OUTPUT_SIZE as usize)
    }
    fn node_val(k: usize) -> [u8; 32] {
        let mut b = [0u8; 32];
        let mut i = 0;
        while i < 32 {
            b[i] = NODE_VAL[k * 32 + i].load(Ordering::Relaxed);
            i += 1;
        }
        b
    }

    // ---- contract stub for LmotsSignature::sign (body checked by c07_ots_sign_*): logs (I, q, C, message), returns an arbitrary signature
    static OTS_SIGN_CALLS: AtomicUsize = AtomicUsize::new(0);
    static OTS_SIGN_ARG: [AtomicU8; 16 + 4 + 32 + 8] = [const { AtomicU8::new(0) }; 60];
    static OTS_SIGN_MSGLEN: AtomicUsize = AtomicUsize::new(0);
    pub fn stub_ots_sign<H: HashChain>(
        private_key: &LmotsPrivateKey<H>,
        signature_randomizer: &ArrayVec<[u8; MAX_HASH_SIZE]>,
        message: &[u8],
    ) -> LmotsSignature<H> {
        OTS_SIGN_CALLS.fetch_add(1, Ordering::Relaxed);
        let mut i = 0;
        while i < 16 {
            OTS_SIGN_ARG[i].store(private_key.lms_tree_identifier[i], Ordering::Relaxed);
            i += 1;
        }
        i = 0;
        while i < 4 {
            OTS_SIGN_ARG[16 + i].store(private_key.lms_leaf_identifier[i], Ordering::Relaxed);
            i += 1;
        }
        i = 0;
        while i < signature_randomizer.len() {
            OTS_SIGN_ARG[20 + i].store(signature_randomizer[i], Ordering::Relaxed);
            i += 1;
        }
        OTS_SIGN_MSGLEN.store(message.len(), Ordering::Relaxed);
        i = 0;
        while i < message.len() && i < 8 {
            OTS_SIGN_ARG[52 + i].store(message[i], Ordering::Relaxed);
            i += 1;
        }
        let mut s = LmotsSignature::<H>::default();
        s.lmots_parameter = private_key.lmots_parameter;
        s.signature_randomizer = *signature_randomizer;
        s.hash_iterations = kani::any();
        s
    }
    /// LmotsSignature::to_binary_representation is checked against the RFC layout in c07_ots_sign_*; LmsSignature's
    /// serialiser only concatenates its result, so here it is abstracted by a short fixed encoding (type code and the first
    /// 8 randomizer bytes) - the statement proved about the concatenation is parametric in the encoder
    pub fn stub_ots_to_bytes<H: HashChain>(this: &LmotsSignature<H>) -> ArrayVec<[u8; MAX_LMOTS_SIGNATURE_LENGTH]> {
        let mut r = ArrayVec::new();
        r.extend_from_slice(&this.lmots_parameter.get_type_id().to_be_bytes());
        r.extend_from_slice(&this.signature_randomizer.as_slice()[..8]);
        r
    }
    fn ots_arg(i: usize) -> u8 {
        OTS_SIGN_ARG[i].load(Ordering::Relaxed)
    }

    /// RFC 8554 Algorithm 5 (LMS signing) and section 5.4.1: signature = u32(q) || lmots_signature || u32(type) || path[0..h-1],
    /// path[i] = T[((2^h + q) >> i) xor 1]; the leaf used is the key's current leaf, which is then advanced by one; refused at 2^h
    fn check_lms_sign(code: u8) {
        NODE_CALLS.store(0, Ordering::Relaxed);
        OTS_SIGN_CALLS.store(0, Ordering::Relaxed);
        let h = spec_height_of_lms_code(code).unwrap();
        let id: [u8; ILEN] = kani::any();
        let q: u32 = kani::any();
        let lmots: LmotsParameter<H> = LmotsAlgorithm::LmotsW8.construct_parameter().unwrap();
        let lms = LmsAlgorithm::from(code as u32).construct_parameter::<H>().unwrap();
        let mut key = LmsPrivateKey::<H>::new(Seed::default(), id, q, lmots, lms);
        let cb: [u8; 32] = kani::any();
        let c = ArrayVec::from_array_len(cb, N);
        let msg: [u8; 4] = kani::any();
        let r = LmsSignature::sign(&mut key, &msg, &c, &mut None);
        let was_ok = r.is_ok();
        if (q as u64) >= (1u64 << h) {
            assert!(r.is_err(), "no leaf beyond 2^h is handed out");
            assert!(key.used_leafs_index == q, "refusal leaves the key untouched");
            assert!(OTS_SIGN_CALLS.load(Ordering::Relaxed) == 0, "nothing signed");
        } else {
            let s = r.unwrap();
            assert!(key.used_leafs_index == q + 1, "leaf counter advanced by exactly one");
            assert!(s.lms_leaf_identifier == q.to_be_bytes(), "signature carries the leaf number that was current");
            assert!(s.lms_parameter == lms, "LMS type of the key");
            assert!(OTS_SIGN_CALLS.load(Ordering::Relaxed) == 1, "exactly one LM-OTS signature");
            let mut i = 0;
            while i < 16 {
                assert!(ots_arg(i) == id[i], "LM-OTS key of this tree");
                i += 1;
            }
            assert!([ots_arg(16), ots_arg(17), ots_arg(18), ots_arg(19)] == q.to_be_bytes(), "LM-OTS key of leaf q");
            i = 0;
            while i < N {
                assert!(ots_arg(20 + i) == cb[i], "randomizer passed through");
                i += 1;
            }
            assert!(OTS_SIGN_MSGLEN.load(Ordering::Relaxed) == 4 && [ots_arg(52), ots_arg(53), ots_arg(54), ots_arg(55)] == msg, "message passed through");
            assert!(s.authentication_path.len() == h as usize && NODE_CALLS.load(Ordering::Relaxed) == h as usize, "h path nodes");
            i = 0;
            while i < h as usize {
                let want = (((1usize << h) + q as usize) >> i) ^ 1;
                assert!(NODE_REQ[i].load(Ordering::Relaxed) == want, "path[i] is node ((2^h + q) >> i) xor 1");
                assert!(s.authentication_path[i].as_slice() == &node_val(i)[..N], "path[i] is that node's value");
                i += 1;
            }
            // serialisation (section 5.4): u32(q) || lmots signature || u32(lms type) || path
            let bin = s.to_binary_representation();
            let ots = s.lmots_signature.to_binary_representation();
            let ol = ots.len();
            assert!(bin.len() == 4 + ol + 4 + N * h as usize, "length 4 + lmots + 4 + n*h");
            assert!(bin[..4] == q.to_be_bytes() && bin[4..4 + ol] == *ots.as_slice() && bin[4 + ol..8 + ol] == lms.get_type_id().to_be_bytes(), "q, LM-OTS signature, LMS type");
            i = 0;
            while i < h as usize {
                assert!(bin[8 + ol + i * N..8 + ol + (i + 1) * N] == *s.authentication_path[i].as_slice(), "path[i] at offset 8 + lmots + i*n");
                i += 1;
            }
        }
        kani::cover!(was_ok && q > 0, "signing path reachable");
        kani::cover!(!was_ok, "exhausted tree reachable");
    }

    macro_rules! h {
        ($name:ident, $code:expr) => {
            #[kani::proof]
            #[kani::stub(zeroize::optimization_barrier, no_barrier)]
            #[kani::stub(<[u8; 32] as tinyvec::Array>::default, fast_default)]
            #[kani::stub(crate::lm_ots::keygen::generate_private_key, stub_ots_private)]
            #[kani::stub(crate::lms::helper::get_tree_element, stub_tree_element)]
            #[kani::stub(crate::lm_ots::signing::LmotsSignature::sign, stub_ots_sign)]
            #[kani::stub(crate::lm_ots::signing::LmotsSignature::to_binary_representation, stub_ots_to_bytes)]
            #[kani::unwind(40)]
            fn $name() {
                check_lms_sign($code);
            }
        };
    }
    // @h name=c07_lms_sign_h5 props=C07,C03,C01,C05 tier=extended kind=proved cfg=w8 timeout=2400 funcs=LmsSignature::sign;LmsSignature::build_authentication_path;LmsPrivateKey::use_lmots_private_key;LmsSignature::to_binary_representation contract="RFC 8554 Alg. 5: uses leaf q = current counter, then counter+1; refuses at 2^h; path[i] = T[((2^h+q)>>i)^1]; bytes = u32(q)||lmots||u32(type)||path; every q (all 2^32), I, C, message; callees by contract; h=5"
    h!(c07_lms_sign_h5, 5);
    // @h name=c07_lms_sign_h10 props=C07,C03,C01,C05 tier=extended kind=proved cfg=w8 timeout=2400 funcs=LmsSignature::sign;LmsSignature::build_authentication_path;LmsPrivateKey::use_lmots_private_key contract="same, h=10"
    h!(c07_lms_sign_h10, 6);
    // @h name=c07_lms_sign_h25 props=C07,C03,C01,C05 tier=extended kind=proved cfg=w8 timeout=3600 funcs=LmsSignature::sign;LmsSignature::build_authentication_path;LmsPrivateKey::use_lmots_private_key contract="same, h=25"
    h!(c07_lms_sign_h25, 9);
    // @h name=c07_lms_sign_h2 props=C07,C03,C01,C05 tier=extended kind=proved cfg=w8 timeout=2400 funcs=LmsSignature::sign;LmsSignature::build_authentication_path;LmsPrivateKey::use_lmots_private_key contract="same, hook height 2"
    h!(c07_lms_sign_h2, 1);
}
