//! Injected by /verif. Stubs, executable specifications (written from RFC 8554 / hash-sigs, sharing no
//! code with the crate) and helpers used by the `kani_verif` modules. Compiled under cfg(kani) only.
#![allow(dead_code)]
extern crate std;

use crate::constants::MAX_ALLOWED_HSS_LEVELS;
use crate::hasher::HashChain;
use crate::hss::parameter::HssParameter;
use crate::{LmotsAlgorithm, LmsAlgorithm};
use tinyvec::ArrayVec;

// ---------------------------------------------------------------- trusted stubs (DESIGN 3.1 item 4)
/// zeroize::optimization_barrier is an empty inline-asm barrier; Kani cannot translate asm.
pub fn no_barrier<T: ?Sized>(_: &T) {}

/// tinyvec's `<[T; N] as Array>::default()` is `[(); N].map(|_| T::default())`; same value, no closure machinery.
pub fn fast_default<T: Default + Copy, const N: usize>() -> [T; N] {
    [T::default(); N]
}

// ---------------------------------------------------------------- parameter helpers
pub const LMS_CODES: [u8; 6] = [1, 5, 6, 7, 8, 9];

/// RFC 8554 section 5.1 (plus the crate's 4-leaf test tree, type 1): type code -> height
pub fn spec_height_of_lms_code(code: u8) -> Option<u32> {
    match code {
        1 => Some(2),
        5 => Some(5),
        6 => Some(10),
        7 => Some(15),
        8 => Some(20),
        9 => Some(25),
        _ => None,
    }
}

pub fn spec_w_of_lmots_code(code: u8) -> Option<u32> {
    match code {
        1 => Some(1),
        2 => Some(2),
        3 => Some(4),
        4 => Some(8),
        _ => None,
    }
}

/// symbolic valid LMS type code; `allow_h2` admits the 4-leaf hook tree
pub fn any_lms_code(allow_h2: bool) -> u8 {
    let c: u8 = kani::any();
    kani::assume((c >= 5 && c <= 9) || (allow_h2 && c == 1));
    c
}

pub fn any_lmots_code() -> u8 {
    let c: u8 = kani::any();
    kani::assume(c >= 1 && c <= 4);
    c
}

pub fn param_list<H: HashChain>(
    lms_codes: &[u8],
    lmots_codes: &[u8],
) -> ArrayVec<[HssParameter<H>; MAX_ALLOWED_HSS_LEVELS]> {
    let mut v = ArrayVec::new();
    let mut i = 0;
    while i < lms_codes.len() {
        v.push(HssParameter::new(
            LmotsAlgorithm::from(lmots_codes[i] as u32),
            LmsAlgorithm::from(lms_codes[i] as u32),
        ));
        i += 1;
    }
    v
}

// ---------------------------------------------------------------- counter arithmetic spec (DESIGN 4)
/// digit_i(c) = floor(c / prod_{j>i} 2^{h_j}) mod 2^{h_i}; 0 once the divisor exceeds 2^64
pub fn spec_digit(c: u64, heights: &[u32], i: usize) -> u32 {
    let mut shift: u32 = 0;
    let mut j = heights.len();
    while j > i + 1 {
        j -= 1;
        shift += heights[j];
    }
    if shift >= 64 {
        return 0;
    }
    (((c as u128) >> shift) % (1u128 << heights[i])) as u32
}

pub fn spec_total_height(heights: &[u32]) -> u32 {
    let mut t = 0u32;
    let mut j = 0;
    while j < heights.len() {
        t += heights[j];
        j += 1;
    }
    t
}

/// number of leaves N = 2^(sum h) as u128 (sum h <= 127)
pub fn spec_total_leaves(heights: &[u32]) -> u128 {
    1u128 << spec_total_height(heights)
}

/// last usable counter value: N-1, or u64::MAX when N-1 does not fit
pub fn spec_last_counter(heights: &[u32]) -> u64 {
    let t = spec_total_height(heights);
    if t >= 64 {
        u64::MAX
    } else {
        ((1u128 << t) - 1) as u64
    }
}

// ---------------------------------------------------------------- RFC 8554 LM-OTS arithmetic (executable spec)
/// RFC 8554 section 3.1.3: coef(S, i, w) = (2^w - 1) AND ( byte(S, floor(i * w / 8)) >> (8 - (w * (i % (8 / w)) + w)) )
pub fn spec_coef(s: &[u8], i: u32, w: u32) -> u32 {
    let byte = s[((i * w) / 8) as usize] as u32;
    ((1u32 << w) - 1) & (byte >> (8 - (w * (i % (8 / w)) + w)))
}

fn spec_floor_lg(mut x: u32) -> u32 {
    let mut r = 0;
    while x > 1 {
        x /= 2;
        r += 1;
    }
    r
}

/// RFC 8554 Appendix B: u = ceil(8n/w), v = ceil((floor(lg((2^w - 1) * u)) + 1) / w), ls = 16 - (v * w), p = u + v
pub fn spec_appendix_b(n: u32, w: u32) -> (u32, u32, u32, u32) {
    let u = (8 * n + w - 1) / w;
    let v = (spec_floor_lg(((1u32 << w) - 1) * u) + 1 + w - 1) / w;
    let ls = 16 - v * w;
    (u, v, ls, u + v)
}

/// RFC 8554 section 4.4 Algorithm 2 with an explicit left shift: Cksm(S) = (sum_{i<u} (2^w - 1 - coef(S,i,w))) << ls
pub fn spec_cksm(s: &[u8], n: u32, w: u32, ls: u32) -> u16 {
    let mut sum: u32 = 0;
    let mut i = 0;
    let u = (n * 8) / w;
    while i < u {
        sum += ((1u32 << w) - 1) - spec_coef(s, i, w);
        i += 1;
    }
    (sum << ls) as u16
}

// ---------------------------------------------------------------- recording hash (DESIGN 2.3)
// A HashChain implementation whose every finalisation logs the absorbed pre-image and returns a FRESH unconstrained
// value. Contracts are stated over the log (number of calls, exact pre-image bytes of call k, where output k flows), so
// they hold for every hash function. The crate forbids unsafe code, hence atomics for the log; the log is packed into
// u64 words (8 bytes per atomic) because every loop iteration and every check costs CBMC/Kani time.
use core::sync::atomic::{AtomicU64, AtomicU8, AtomicUsize, Ordering};
use digest::{typenum::U32, FixedOutput, Output, OutputSizeUser, Update};

// log sizes matter: CBMC's cost grows with the size of these statics, so the default is small and the harnesses that need
// more (whole 32-leaf tree, w=1 chains) run in a configuration that passes --cfg kani_biglog
#[cfg(not(kani_biglog))]
pub const REC_LOG_WORDS: usize = 320;
#[cfg(kani_biglog)]
pub const REC_LOG_WORDS: usize = 1280;
static REC_LOG: [AtomicU64; REC_LOG_WORDS] = [const { AtomicU64::new(0) }; REC_LOG_WORDS];
static REC_COUNT: AtomicUsize = AtomicUsize::new(0);

fn w64(b: &[u8], off: usize) -> u64 {
    u64::from_le_bytes([b[off], b[off + 1], b[off + 2], b[off + 3], b[off + 4], b[off + 5], b[off + 6], b[off + 7]])
}

/// CAP (pre-image capacity in bytes) must be a multiple of 8
#[derive(Clone, Debug)]
pub struct RecHash<const N: usize, const CAP: usize> {
    buf: [u8; CAP],
    len: usize,
}

impl<const N: usize, const CAP: usize> Default for RecHash<N, CAP> {
    fn default() -> Self {
        RecHash { buf: [0u8; CAP], len: 0 }
    }
}
impl<const N: usize, const CAP: usize> PartialEq for RecHash<N, CAP> {
    fn eq(&self, _: &Self) -> bool {
        false
    }
}
impl<const N: usize, const CAP: usize> RecHash<N, CAP> {
    /// words per log entry: length, CAP/8 pre-image words, 4 output words
    const STRIDE: usize = 1 + CAP / 8 + 4;
    fn record(&mut self) -> [u8; 32] {
        assert!(CAP % 8 == 0, "harness sizing: CAP multiple of 8");
        let k = REC_COUNT.load(Ordering::Relaxed);
        assert!((k + 1) * Self::STRIDE <= REC_LOG_WORDS, "recording-hash log overflow (harness sizing)");
        let base = k * Self::STRIDE;
        REC_LOG[base].store(self.len as u64, Ordering::Relaxed);
        let mut i = 0;
        while i < CAP / 8 {
            REC_LOG[base + 1 + i].store(w64(&self.buf, 8 * i), Ordering::Relaxed);
            i += 1;
        }
        let out: [u8; 32] = kani::any();
        i = 0;
        while i < 4 {
            REC_LOG[base + 1 + CAP / 8 + i].store(w64(&out, 8 * i), Ordering::Relaxed);
            i += 1;
        }
        REC_COUNT.store(k + 1, Ordering::Relaxed);
        self.len = 0;
        self.buf = [0u8; CAP];
        out
    }
    pub fn reset_log() {
        REC_COUNT.store(0, Ordering::Relaxed);
    }
    pub fn calls() -> usize {
        REC_COUNT.load(Ordering::Relaxed)
    }
    /// pre-image of call k: (length, bytes zero-padded to CAP)
    pub fn pre(k: usize) -> (usize, [u8; CAP]) {
        let base = k * Self::STRIDE;
        let len = REC_LOG[base].load(Ordering::Relaxed) as usize;
        let mut b = [0u8; CAP];
        let mut i = 0;
        while i < CAP / 8 {
            b[8 * i..8 * i + 8].copy_from_slice(&REC_LOG[base + 1 + i].load(Ordering::Relaxed).to_le_bytes());
            i += 1;
        }
        (len, b)
    }
    /// output of call k (first N bytes are what the library received)
    pub fn out(k: usize) -> [u8; 32] {
        let base = k * Self::STRIDE;
        let mut b = [0u8; 32];
        let mut i = 0;
        while i < 4 {
            b[8 * i..8 * i + 8].copy_from_slice(&REC_LOG[base + 1 + CAP / 8 + i].load(Ordering::Relaxed).to_le_bytes());
            i += 1;
        }
        b
    }
    /// true iff call k absorbed exactly `expect`
    pub fn pre_is(k: usize, expect: &[u8]) -> bool {
        // word-wise comparison against the log (a byte-wise slice comparison would need an unwinding bound of CAP for memcmp)
        let base = k * Self::STRIDE;
        if REC_LOG[base].load(Ordering::Relaxed) as usize != expect.len() || expect.len() > CAP {
            return false;
        }
        let mut padded = [0u8; CAP];
        padded[..expect.len()].copy_from_slice(expect);
        let mut ok = true;
        let mut i = 0;
        while i < CAP / 8 {
            ok = ok && REC_LOG[base + 1 + i].load(Ordering::Relaxed) == w64(&padded, 8 * i);
            i += 1;
        }
        ok
    }
}
impl<const N: usize, const CAP: usize> Update for RecHash<N, CAP> {
    fn update(&mut self, data: &[u8]) {
        assert!(self.len + data.len() <= CAP, "recording-hash buffer overflow (harness sizing)");
        self.buf[self.len..self.len + data.len()].copy_from_slice(data);
        self.len += data.len();
    }
}
impl<const N: usize, const CAP: usize> OutputSizeUser for RecHash<N, CAP> {
    type OutputSize = U32;
}
impl<const N: usize, const CAP: usize> FixedOutput for RecHash<N, CAP> {
    fn finalize_into(mut self, out: &mut Output<Self>) {
        let o = self.record();
        out.copy_from_slice(&o);
    }
}
impl<const N: usize, const CAP: usize> HashChain for RecHash<N, CAP> {
    const OUTPUT_SIZE: u16 = N as u16;
    const BLOCK_SIZE: u16 = 64;
    fn finalize(mut self) -> ArrayVec<[u8; crate::constants::MAX_HASH_SIZE]> {
        let o = self.record();
        ArrayVec::from_array_len(o, N)
    }
    fn finalize_reset(&mut self) -> ArrayVec<[u8; crate::constants::MAX_HASH_SIZE]> {
        let o = self.record();
        ArrayVec::from_array_len(o, N)
    }
}

// ---------------------------------------------------------------- recording hash with contracted hash chains
// Same as RecHash, but `do_hash_chain` (a provided trait method that an implementation may override - the crate's own
// doc comment invites hardware accelerators to do so) is replaced by its contract: the call (chain id, from, to, start
// value) is logged and a fresh unconstrained value returned. The real body of do_hash_chain / do_actual_hash_chain is
// checked against this contract by the K-chain harnesses (c07_chain_*).
#[cfg(not(kani_biglog))]
pub const CHAIN_LOG_ENTRIES: usize = 40;
#[cfg(kani_biglog)]
pub const CHAIN_LOG_ENTRIES: usize = 300;
static CHAIN_COUNT: AtomicUsize = AtomicUsize::new(0);
static CHAIN_META: [AtomicUsize; CHAIN_LOG_ENTRIES * 3] = [const { AtomicUsize::new(0) }; CHAIN_LOG_ENTRIES * 3];
static CHAIN_VALS: [AtomicU64; CHAIN_LOG_ENTRIES * 8] = [const { AtomicU64::new(0) }; CHAIN_LOG_ENTRIES * 8];
static CHAIN_HDR: [AtomicU8; 20] = [const { AtomicU8::new(0) }; 20];

#[derive(Clone, Debug, Default, PartialEq)]
pub struct RecHashC<const N: usize, const CAP: usize> {
    inner: RecHash<N, CAP>,
}
impl<const N: usize, const CAP: usize> RecHashC<N, CAP> {
    pub fn reset_log() {
        RecHash::<N, CAP>::reset_log();
        CHAIN_COUNT.store(0, Ordering::Relaxed);
    }
    pub fn calls() -> usize {
        RecHash::<N, CAP>::calls()
    }
    pub fn pre_is(k: usize, expect: &[u8]) -> bool {
        RecHash::<N, CAP>::pre_is(k, expect)
    }
    pub fn out(k: usize) -> [u8; 32] {
        RecHash::<N, CAP>::out(k)
    }
    pub fn chain_calls() -> usize {
        CHAIN_COUNT.load(Ordering::Relaxed)
    }
    /// (chain id, from, to) of chain call k
    pub fn chain_meta(k: usize) -> (usize, usize, usize) {
        (CHAIN_META[3 * k].load(Ordering::Relaxed), CHAIN_META[3 * k + 1].load(Ordering::Relaxed), CHAIN_META[3 * k + 2].load(Ordering::Relaxed))
    }
    pub fn chain_start(k: usize) -> [u8; 32] {
        let mut b = [0u8; 32];
        let mut i = 0;
        while i < 4 {
            b[8 * i..8 * i + 8].copy_from_slice(&CHAIN_VALS[8 * k + i].load(Ordering::Relaxed).to_le_bytes());
            i += 1;
        }
        b
    }
    pub fn chain_out(k: usize) -> [u8; 32] {
        let mut b = [0u8; 32];
        let mut i = 0;
        while i < 4 {
            b[8 * i..8 * i + 8].copy_from_slice(&CHAIN_VALS[8 * k + 4 + i].load(Ordering::Relaxed).to_le_bytes());
            i += 1;
        }
        b
    }
    /// I || q of the most recent chain call (the header prepared by prepare_hash_chain_data)
    pub fn chain_hdr() -> [u8; 20] {
        let mut b = [0u8; 20];
        let mut i = 0;
        while i < 20 {
            b[i] = CHAIN_HDR[i].load(Ordering::Relaxed);
            i += 1;
        }
        b
    }
}
impl<const N: usize, const CAP: usize> Update for RecHashC<N, CAP> {
    fn update(&mut self, data: &[u8]) {
        self.inner.update(data)
    }
}
impl<const N: usize, const CAP: usize> OutputSizeUser for RecHashC<N, CAP> {
    type OutputSize = U32;
}
impl<const N: usize, const CAP: usize> FixedOutput for RecHashC<N, CAP> {
    fn finalize_into(self, out: &mut Output<Self>) {
        self.inner.finalize_into(generic_out::<N, CAP>(out))
    }
}
fn generic_out<const N: usize, const CAP: usize>(o: &mut Output<RecHashC<N, CAP>>) -> &mut Output<RecHash<N, CAP>> {
    o
}
impl<const N: usize, const CAP: usize> HashChain for RecHashC<N, CAP> {
    const OUTPUT_SIZE: u16 = N as u16;
    const BLOCK_SIZE: u16 = 64;
    fn finalize(self) -> ArrayVec<[u8; crate::constants::MAX_HASH_SIZE]> {
        self.inner.finalize()
    }
    fn finalize_reset(&mut self) -> ArrayVec<[u8; crate::constants::MAX_HASH_SIZE]> {
        self.inner.finalize_reset()
    }
    fn do_hash_chain(
        &mut self,
        hc_data: &mut crate::hasher::HashChainData,
        hash_chain_id: u16,
        initial_value: &[u8],
        from: usize,
        to: usize,
    ) -> ArrayVec<[u8; crate::constants::MAX_HASH_SIZE]> {
        // preconditions of the real body (copy_from_slice panics otherwise; `from..to` with from > to is empty)
        assert!(initial_value.len() == N, "do_hash_chain: start value has n bytes");
        assert!(hc_data.len() == 23 + N, "do_hash_chain: prepared buffer has 23 + n bytes");
        assert!(from <= to && to <= 255, "do_hash_chain: 0 <= from <= to <= 2^w - 1");
        let k = CHAIN_COUNT.load(Ordering::Relaxed);
        assert!(k < CHAIN_LOG_ENTRIES, "chain log overflow (harness sizing)");
        CHAIN_META[3 * k].store(hash_chain_id as usize, Ordering::Relaxed);
        CHAIN_META[3 * k + 1].store(from, Ordering::Relaxed);
        CHAIN_META[3 * k + 2].store(to, Ordering::Relaxed);
        let mut start = [0u8; 32];
        start[..N].copy_from_slice(initial_value);
        // contract: from == to returns the start value unchanged, otherwise a value about which nothing is known
        let out: [u8; 32] = if from == to { start } else { kani::any() };
        let mut i = 0;
        while i < 4 {
            CHAIN_VALS[8 * k + i].store(w64(&start, 8 * i), Ordering::Relaxed);
            CHAIN_VALS[8 * k + 4 + i].store(w64(&out, 8 * i), Ordering::Relaxed);
            i += 1;
        }
        i = 0;
        while i < 20 {
            CHAIN_HDR[i].store(hc_data[i], Ordering::Relaxed);
            i += 1;
        }
        CHAIN_COUNT.store(k + 1, Ordering::Relaxed);
        ArrayVec::from_array_len(out, N)
    }
}
