//! Injected by /verif. Stubs, executable specifications (written from RFC 8554 / hash-sigs, sharing no
//! code with the crate) and helpers used by the `kani_verif` modules. Compiled under cfg(kani) only.
#![allow(dead_code)]
extern crate std;

use crate::constants::MAX_ALLOWED_HSS_LEVELS;
use crate::hasher::HashChain;
use crate::hss::parameter::HssParameter;
use crate::{LmotsAlgorithm, LmsAlgorithm};
use tinyvec::ArrayVec;

// ---------------------------------------------------------------- trusted stubs (DESIGN 3.1 item 4)
/// zeroize::optimization_barrier is an empty inline-asm barrier; Kani cannot translate asm.
pub fn no_barrier<T: ?Sized>(_: &T) {}

/// tinyvec's `<[T; N] as Array>::default()` is `[(); N].map(|_| T::default())`; same value, no closure machinery.
pub fn fast_default<T: Default + Copy, const N: usize>() -> [T; N] {
    [T::default(); N]
}

// ---------------------------------------------------------------- parameter helpers
pub const LMS_CODES: [u8; 6] = [1, 5, 6, 7, 8, 9];

/// RFC 8554 section 5.1 (plus the crate's 4-leaf test tree, type 1): type code -> height
pub fn spec_height_of_lms_code(code: u8) -> Option<u32> {
    match code {
        1 => Some(2),
        5 => Some(5),
        6 => Some(10),
        7 => Some(15),
        8 => Some(20),
        9 => Some(25),
        _ => None,
    }
}

pub fn spec_w_of_lmots_code(code: u8) -> Option<u32> {
    match code {
        1 => Some(1),
        2 => Some(2),
        3 => Some(4),
        4 => Some(8),
        _ => None,
    }
}

/// symbolic valid LMS type code; `allow_h2` admits the 4-leaf hook tree
pub fn any_lms_code(allow_h2: bool) -> u8 {
    let c: u8 = kani::any();
    kani::assume((c >= 5 && c <= 9) || (allow_h2 && c == 1));
    c
}

pub fn any_lmots_code() -> u8 {
    let c: u8 = kani::any();
    kani::assume(c >= 1 && c <= 4);
    c
}

pub fn param_list<H: HashChain>(
    lms_codes: &[u8],
    lmots_codes: &[u8],
) -> ArrayVec<[HssParameter<H>; MAX_ALLOWED_HSS_LEVELS]> {
    let mut v = ArrayVec::new();
    let mut i = 0;
    while i < lms_codes.len() {
        v.push(HssParameter::new(
            LmotsAlgorithm::from(lmots_codes[i] as u32),
            LmsAlgorithm::from(lms_codes[i] as u32),
        ));
        i += 1;
    }
    v
}

// ---------------------------------------------------------------- counter arithmetic spec (DESIGN 4)
/// digit_i(c) = floor(c / prod_{j>i} 2^{h_j}) mod 2^{h_i}; 0 once the divisor exceeds 2^64
pub fn spec_digit(c: u64, heights: &[u32], i: usize) -> u32 {
    let mut shift: u32 = 0;
    let mut j = heights.len();
    while j > i + 1 {
        j -= 1;
        shift += heights[j];
    }
    if shift >= 64 {
        return 0;
    }
    (((c as u128) >> shift) % (1u128 << heights[i])) as u32
}

pub fn spec_total_height(heights: &[u32]) -> u32 {
    let mut t = 0u32;
    let mut j = 0;
    while j < heights.len() {
        t += heights[j];
        j += 1;
    }
    t
}

/// number of leaves N = 2^(sum h) as u128 (sum h <= 127)
pub fn spec_total_leaves(heights: &[u32]) -> u128 {
    1u128 << spec_total_height(heights)
}

/// last usable counter value: N-1, or u64::MAX when N-1 does not fit
pub fn spec_last_counter(heights: &[u32]) -> u64 {
    let t = spec_total_height(heights);
    if t >= 64 {
        u64::MAX
    } else {
        ((1u128 << t) - 1) as u64
    }
}
