// ---- injected by /verif (insert-only) ----
#[cfg(kani)]
pub(crate) mod kani_verif {
    use super::*;
    use crate::kani_support::*;

    /// Stand-in for the SHA-256 compression function (sha2 selects an implementation through cpuid, which Kani cannot
    /// translate): a deterministic, position-sensitive mixing of the state with the block. What these harnesses check is the
    /// WRAPPER - which bytes of the 32-byte digest it hands out, and that finalize_reset resets - not SHA-256 itself
    /// (sha2 is in the trusted base).
    pub fn model_compress256(
        state: &mut [u32; 8],
        blocks: &[digest::generic_array::GenericArray<u8, digest::typenum::U64>],
    ) {
        let mut b = 0;
        while b < blocks.len() {
            let mut i = 0;
            while i < 8 {
                let w = u32::from_be_bytes([blocks[b][4 * i], blocks[b][4 * i + 1], blocks[b][32 + i], blocks[b][63 - i]]);
                state[i] = state[i].rotate_left(5) ^ w.wrapping_add(i as u32);
                i += 1;
            }
            b += 1;
        }
    }

    macro_rules! sha_wrapper_harness {
        ($name:ident, $ty:ident, $n:expr) => {
            #[kani::proof]
            #[kani::stub(zeroize::optimization_barrier, no_barrier)]
            #[kani::stub(<[u8; 32] as tinyvec::Array>::default, fast_default)]
            #[kani::stub(sha2::sha256::compress256, model_compress256)]
            #[kani::unwind(70)]
            fn $name() {
                let data: [u8; 5] = kani::any();
                let mut h = $ty::default();
                h.update(&data);
                // the full 32-byte digest of exactly this state, taken through the inner hasher
                let full = h.clone().hasher.finalize_fixed();
                let mut h2 = h.clone();
                let r = HashChain::finalize(h);
                assert!(<$ty as HashChain>::OUTPUT_SIZE as usize == $n, "declared output size");
                assert!(r.len() == $n, "finalize returns OUTPUT_SIZE bytes");
                assert!(r.as_slice() == &full[..$n], "... the FIRST OUTPUT_SIZE bytes of the SHA-256 digest (SP 800-208 truncation)");
                let r2 = h2.finalize_reset();
                assert!(r2.len() == $n && r2.as_slice() == &full[..$n], "finalize_reset returns the same bytes");
                let empty = $ty::default().hasher.finalize_fixed();
                let r3 = h2.finalize_reset();
                assert!(r3.as_slice() == &empty[..$n], "and leaves the hasher in its initial state");
                kani::cover!(full[0] != full[31], "digest bytes are not all equal");
            }
        };
    }
    // @h name=c08_sha_wrapper_256 props=C08,C07,C09 tier=extended kind=proved cfg=default timeout=900 funcs=Sha256_256::finalize;Sha256_256::finalize_reset;Sha256_256::update contract="finalize / finalize_reset return the first OUTPUT_SIZE bytes of the inner SHA-256 digest of what was absorbed; finalize_reset resets; compression function replaced by a deterministic stand-in (sha2 trusted)"
    sha_wrapper_harness!(c08_sha_wrapper_256, Sha256_256, 32);
    // @h name=c08_sha_wrapper_192 props=C08,C07,C09 tier=extended kind=proved cfg=default timeout=900 funcs=Sha256_192::finalize;Sha256_192::finalize_reset contract="same, OUTPUT_SIZE = 24"
    sha_wrapper_harness!(c08_sha_wrapper_192, Sha256_192, 24);
    // @h name=c08_sha_wrapper_128 props=C08,C07,C09 tier=thorough kind=proved cfg=default timeout=900 funcs=Sha256_128::finalize;Sha256_128::finalize_reset contract="same, OUTPUT_SIZE = 16"
    sha_wrapper_harness!(c08_sha_wrapper_128, Sha256_128, 16);
}
