// ---- injected by /verif (insert-only) ----
#[cfg(kani)]
pub(crate) mod kani_verif {
    use super::*;
    use crate::kani_support::*;

    /// Stand-in for the Keccak-f[1600] permutation (24 rounds on 25 lanes are expensive for CBMC and irrelevant here):
    /// deterministic lane mixing. What is checked is the WRAPPER - how many XOF bytes it reads and which it hands out.
    pub fn model_f1600(state: &mut [u64; 25]) {
        let mut i = 0;
        while i < 25 {
            state[i] = state[i].rotate_left(7) ^ state[(i + 1) % 25].wrapping_add(i as u64 + 1);
            i += 1;
        }
    }

    macro_rules! shake_wrapper_harness {
        ($name:ident, $ty:ident, $n:expr) => {
            #[kani::proof]
            #[kani::stub(zeroize::optimization_barrier, no_barrier)]
            #[kani::stub(<[u8; 32] as tinyvec::Array>::default, fast_default)]
            #[kani::stub(keccak::f1600, model_f1600)]
            #[kani::unwind(140)]
            fn $name() {
                let data: [u8; 5] = kani::any();
                let mut h = $ty::default();
                h.update(&data);
                let mut full = [0u8; 32];
                h.clone().hasher.finalize_xof().read(&mut full);
                let mut h2 = h.clone();
                let r = HashChain::finalize(h);
                assert!(<$ty as HashChain>::OUTPUT_SIZE as usize == $n, "declared output size");
                assert!(r.len() == $n && r.as_slice() == &full[..$n], "finalize returns the first OUTPUT_SIZE bytes of the SHAKE256 output stream");
                let r2 = h2.finalize_reset();
                assert!(r2.len() == $n && r2.as_slice() == &full[..$n], "finalize_reset returns the same bytes");
                let mut empty = [0u8; 32];
                $ty::default().hasher.finalize_xof().read(&mut empty);
                let r3 = h2.finalize_reset();
                assert!(r3.as_slice() == &empty[..$n], "and leaves the hasher in its initial state");
                kani::cover!(full[0] != full[31], "output bytes are not all equal");
            }
        };
    }
    // @h name=c08_shake_wrapper_256 props=C08,C07,C09 tier=extended kind=proved cfg=default timeout=900 funcs=Shake256_256::finalize;Shake256_256::finalize_reset;Shake256_256::update contract="finalize / finalize_reset return the first OUTPUT_SIZE bytes of the SHAKE256 output of what was absorbed; finalize_reset resets; Keccak-f replaced by a deterministic stand-in (sha3 trusted)"
    shake_wrapper_harness!(c08_shake_wrapper_256, Shake256_256, 32);
    // @h name=c08_shake_wrapper_192 props=C08,C07,C09 tier=extended kind=proved cfg=default timeout=900 funcs=Shake256_192::finalize;Shake256_192::finalize_reset contract="same, OUTPUT_SIZE = 24"
    shake_wrapper_harness!(c08_shake_wrapper_192, Shake256_192, 24);
    // @h name=c08_shake_wrapper_128 props=C08,C07,C09 tier=extended kind=proved cfg=default timeout=900 funcs=Shake256_128::finalize;Shake256_128::finalize_reset contract="same, OUTPUT_SIZE = 16"
    shake_wrapper_harness!(c08_shake_wrapper_128, Shake256_128, 16);
}
