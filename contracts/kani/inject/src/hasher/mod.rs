// ---- injected by /verif (insert-only) ----
#[cfg(kani)]
pub(crate) mod kani_verif {
    use super::*;
    use crate::kani_support::*;

    /// K-chain: contract of the provided method HashChain::do_hash_chain (and prepare_hash_chain_data, do_actual_hash_chain),
    /// RFC 8554 Algorithm 1/3/4b inner loop:   tmp = start; for j in from..to: tmp = H(I || q || u16(i) || u8(j) || tmp)
    fn check_chain<const N: usize>(max_to: usize, max_len: usize) {
        type R<const N: usize> = RecHash<N, 64>;
        R::<N>::reset_log();
        let id: [u8; 16] = kani::any();
        let q: [u8; 4] = kani::any();
        let chain: u16 = kani::any();
        let start: [u8; N] = kani::any();
        let from: usize = kani::any();
        let to: usize = kani::any();
        kani::assume(from <= to && to <= max_to && to - from <= max_len);
        let mut hc = R::<N>::prepare_hash_chain_data(&id, &q);
        assert!(hc.len() == 23 + N && hc[..16] == id && hc[16..20] == q, "prepared buffer: I || q || 0^3 || 0^n");
        let mut h = R::<N>::default();
        let r = h.do_hash_chain(&mut hc, chain, &start, from, to);
        assert!(R::<N>::calls() == to - from, "exactly to - from hash calls");
        let mut tmp = [0u8; 32];
        tmp[..N].copy_from_slice(&start);
        let mut j = from;
        let mut k = 0;
        while j < to {
            let mut pre = [0u8; 64];
            pre[..16].copy_from_slice(&id);
            pre[16..20].copy_from_slice(&q);
            pre[20..22].copy_from_slice(&chain.to_be_bytes());
            pre[22] = j as u8;
            pre[23..23 + N].copy_from_slice(&tmp[..N]);
            assert!(R::<N>::pre_is(k, &pre[..23 + N]), "iteration j hashes I || q || u16(i) || u8(j) || tmp");
            tmp = R::<N>::out(k);
            j += 1;
            k += 1;
        }
        assert!(r.len() == N && r.as_slice() == &tmp[..N], "result is the last output (the start value when from == to)");
        kani::cover!(to - from == max_len, "longest run reachable");
        kani::cover!(from == to, "empty run reachable");
    }

    // @h props=C07,C08!,C02,C01 tier=quick kind=proved cfg=w8 timeout=1800 funcs=HashChain::do_hash_chain;HashChain::do_actual_hash_chain;HashChain::prepare_hash_chain_data contract="do_hash_chain(i, v, from, to) iterates tmp = H(I||q||u16(i)||u8(j)||tmp) for j = from..to-1 and returns the last value; all from <= to <= 15 (complete for w in {1,2,4}), every I/q/i/start value, every hash function; n=16"
    #[kani::proof]
    #[kani::stub(<[u8; 32] as tinyvec::Array>::default, fast_default)]
    #[kani::unwind(36)]
    fn c07_chain_n16_to15() {
        check_chain::<16>(15, 15);
    }
    // @h props=C07,C08,C02,C01 tier=extended kind=proved cfg=w8 timeout=3000 funcs=HashChain::do_hash_chain;HashChain::do_actual_hash_chain contract="same, n=32"
    #[kani::proof]
    #[kani::stub(<[u8; 32] as tinyvec::Array>::default, fast_default)]
    #[kani::unwind(36)]
    fn c07_chain_n32_to15() {
        check_chain::<32>(15, 15);
    }
    // @h props=C07,C08,C02,C01 tier=thorough kind=bounded cfg=w8 timeout=1800 funcs=HashChain::do_hash_chain;HashChain::do_actual_hash_chain note="w=8: every start position 0..255 but runs of at most 3 iterations; longer runs follow by induction on the loop (same body for every j) - bounded stand-in" contract="same statement for to <= 255 and to - from <= 3 (w = 8 chains), n=16"
    #[kani::proof]
    #[kani::stub(<[u8; 32] as tinyvec::Array>::default, fast_default)]
    #[kani::unwind(36)]
    fn c07_chain_n16_w8_short() {
        check_chain::<16>(255, 3);
    }
}
