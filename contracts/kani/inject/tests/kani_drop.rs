//! Injected by /verif (new file): C16 - the IMPLICIT drop of every secret-bearing type wipes its secrets.
//! The library forbids unsafe code, so these harnesses live in an integration-test crate: the value is placed in a
//! ManuallyDrop, dropped in place (exactly the drop glue that runs when the value goes out of scope) and the storage, which
//! is still allocated, is inspected afterwards.
#![cfg(kani)]
use core::mem::ManuallyDrop;
use hbs_lms::kani_export::*;

macro_rules! drop_harness {
    ($name:ident, $mk:ident, $is_zero:ident, $unw:expr) => {
        #[kani::proof]
        #[kani::stub(zeroize::optimization_barrier, no_barrier)]
        #[kani::stub(<[u8; 32] as tinyvec::Array>::default, fast_default)]
        #[kani::unwind($unw)]
        fn $name() {
            let mut m = ManuallyDrop::new($mk());
            unsafe {
                ManuallyDrop::drop(&mut m);
            }
            assert!($is_zero(&m), "after the implicit drop every secret byte of the value is zero");
            kani::cover!(true, "reachable");
        }
    };
}
// @h name=c16_drop_seed props=C16 tier=quick kind=proved cfg=w8 kani_args="--tests --no-memory-safety-checks --no-undefined-function-checks" funcs=Seed::drop contract="going out of scope wipes the whole 32-byte seed buffer (n = 24); symbolic contents"
drop_harness!(c16_drop_seed, any_seed, seed_is_zero, 40);
// @h name=c16_drop_seed_and_id props=C16 tier=quick kind=proved cfg=w8 kani_args="--tests --no-memory-safety-checks --no-undefined-function-checks" funcs=SeedAndLmsTreeIdentifier::drop contract="same for (seed, I)"
drop_harness!(c16_drop_seed_and_id, any_seed_and_id, seed_and_id_is_zero, 40);
// @h name=c16_drop_ref_key props=C16 tier=quick kind=proved cfg=w8 kani_args="--tests --no-memory-safety-checks --no-undefined-function-checks" funcs=ReferenceImplPrivateKey::drop contract="same for the private key object (master seed)"
drop_harness!(c16_drop_ref_key, any_ref_key, ref_key_is_zero, 40);
// @h name=c16_drop_lms_private_key props=C16 tier=quick kind=proved cfg=w8 kani_args="--tests --no-memory-safety-checks --no-undefined-function-checks" funcs=LmsPrivateKey::drop contract="same for the per-tree private key (seed, I, leaf index)"
drop_harness!(c16_drop_lms_private_key, any_lms_private_key, lms_private_key_is_zero, 40);
// @h name=c16_drop_lmots_private_key props=C16 tier=quick kind=proved cfg=w8 kani_args="--tests --no-memory-safety-checks --no-undefined-function-checks" funcs=LmotsPrivateKey::drop contract="same for the one-time key: every chain value over the whole capacity"
drop_harness!(c16_drop_lmots_private_key, any_lmots_private_key, lmots_private_key_is_zero, 40);
